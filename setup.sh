#!/bin/sh
# Builds the harness once so that later checks only relink. Offline; uses the module cache only.
set -e
cd "$(dirname "$0")/harness"
export GOFLAGS=-mod=mod GOPROXY=off GOSUMDB=off GOTOOLCHAIN=local
mkdir -p ../.build/setup
go test -c -tags verif -vet=off -o ../.build/setup/props.test ./props
echo "setup ok"
