#!/bin/sh
# usage: mut.sh <file-in-repo> <python-regex-or-literal old> <new> <check-id> [tier]
# Applies a one-off source mutation to /repo, runs a check, and always restores /repo.
f="$1"; old="$2"; new="$3"; id="$4"; tier="${5:-quick}"
cd /repo || exit 9
git diff --quiet || { echo "repo dirty, refusing"; exit 9; }
python3 - "$f" "$old" "$new" <<'PY'
import sys
f,old,new=sys.argv[1:4]
s=open(f).read()
if s.count(old)<1:
    print("pattern not found"); sys.exit(3)
s=s.replace(old,new,1)
open(f,'w').write(s)
PY
rc=$?
if [ $rc -eq 0 ]; then
  go build ./... 2>&1 | head -5
  cd /verif && ./check "$id" "$tier" 2>&1 | tail -6 | cut -c1-600
  echo "check exit=$?"
fi
git -C /repo checkout -- . 
