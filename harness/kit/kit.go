// Package kit is the shared case/evidence/journal machinery of the verification harness.
//
// Every property is registered as a (generator, executor) pair over a JSON-serialisable scenario
// type. The generic drivers TestProp / TestReplay in package props run them; kit counts what was
// generated (evaluations, distinct non-trivial scenarios, labels, samples), keeps a write-ahead
// journal so that a case that kills the process is still known, and writes a per-process evidence
// fragment that the Python driver merges.
package kit

import (
	"encoding/json"
	"fmt"
	"hash/fnv"
	"os"
	"runtime/debug"
	"sort"
	"strings"
	"sync"
	"time"

	"pgregory.net/rapid"
)

// Violation is what an executor returns when the oracle says no.
type Violation struct {
	// Stable class of the failure ("C04:addr-queried-twice"); matched against known_findings.json.
	Key string `json:"key"`
	// Human readable description of what was observed.
	Msg string `json:"msg"`
}

func Violatef(key, format string, a ...any) *Violation {
	return &Violation{Key: key, Msg: fmt.Sprintf(format, a...)}
}

// Case is handed to the executor for per-case reporting.
type Case struct {
	nontrivial bool
	labels     []string
	// Observed history of the case (optional); kept in the fail file for schedule-dependent failures.
	Trace []string
	// Inconclusive is set by an executor that could not decide (barrier deadline with runnable
	// goroutines): the case is counted but is neither pass evidence nor a violation.
	Inconclusive string
}

func (c *Case) NonTrivial()    { c.nontrivial = true }
func (c *Case) Label(l string) { c.labels = append(c.labels, l) }
func (c *Case) Logf(f string, a ...any) {
	if len(c.Trace) < 4000 {
		c.Trace = append(c.Trace, fmt.Sprintf(f, a...))
	}
}

type Prop struct {
	ID   string
	Rule string
	// Assumptions written to the evidence file.
	Assumptions []string
	gen         func(*rapid.T) any
	run         func(any, *Case) *Violation
	decode      func([]byte) (any, error)
}

var registry = map[string]*Prop{}

// Register a sub-property. id is e.g. "C15a"; the property id is its first three characters.
func Register[S any](id, rule string, assumptions []string, gen func(*rapid.T) S, run func(S, *Case) *Violation) {
	registry[id] = &Prop{
		ID: id, Rule: rule, Assumptions: assumptions,
		gen: func(t *rapid.T) any { return gen(t) },
		run: func(sc any, c *Case) *Violation { return run(sc.(S), c) },
		decode: func(b []byte) (any, error) {
			var s S
			err := json.Unmarshal(b, &s)
			return s, err
		},
	}
}

func Lookup(id string) *Prop { return registry[id] }

func IDs() (ret []string) {
	for k := range registry {
		ret = append(ret, k)
	}
	sort.Strings(ret)
	return
}

// ---------------------------------------------------------------------------------------------
// Evidence fragment

type Fragment struct {
	Sub             string            `json:"sub"`
	Rule            string            `json:"rule"`
	Assumptions     []string          `json:"assumptions"`
	Evaluations     int64             `json:"evaluations"`
	NonTrivial      int64             `json:"nontrivial"`
	Digests         []uint64          `json:"digests"`
	Labels          map[string]int64  `json:"labels"`
	Samples         []any             `json:"samples"`
	Violations      []FailRecord      `json:"violations"`
	Known           map[string]int64  `json:"known"`
	KnownWhat       map[string]string `json:"known_what"`
	Inconclusive    int64             `json:"inconclusive"`
	InconclusiveWhy []string          `json:"inconclusive_why"`
	WallS           float64           `json:"wall_s"`
	Extra           map[string]any    `json:"extra,omitempty"`
}

type FailRecord struct {
	Sub      string          `json:"sub"`
	Key      string          `json:"key"`
	Msg      string          `json:"msg"`
	Scenario json.RawMessage `json:"scenario"`
	Trace    []string        `json:"trace,omitempty"`
}

type obs struct {
	mu       sync.Mutex
	frag     Fragment
	digests  map[uint64]struct{}
	start    time.Time
	nsamples int
}

var cur = &obs{digests: map[uint64]struct{}{}, start: time.Now()}

const maxDigests = 400000

func init() {
	cur.frag.Labels = map[string]int64{}
	cur.frag.Known = map[string]int64{}
	cur.frag.KnownWhat = map[string]string{}
}

// Extra lets non-rapid tests (exhaustive enumerations, fuzz targets) add keys to the fragment.
func Extra(k string, v any) {
	cur.mu.Lock()
	defer cur.mu.Unlock()
	if cur.frag.Extra == nil {
		cur.frag.Extra = map[string]any{}
	}
	cur.frag.Extra[k] = v
}

// Count is for non-rapid enumerations: adds evaluations / non-trivial cases counted by the caller.
// The digests must identify distinct non-trivial cases.
func Count(sub, rule string, evaluations int64, nontrivialDigests []uint64, samples []any) {
	cur.mu.Lock()
	defer cur.mu.Unlock()
	cur.frag.Sub = sub
	cur.frag.Rule = rule
	cur.frag.Evaluations += evaluations
	for _, d := range nontrivialDigests {
		cur.frag.NonTrivial++
		if len(cur.digests) < maxDigests {
			cur.digests[d] = struct{}{}
		}
	}
	for _, s := range samples {
		if len(cur.frag.Samples) < 8 {
			cur.frag.Samples = append(cur.frag.Samples, s)
		}
	}
}

func Digest(b []byte) uint64 {
	h := fnv.New64a()
	h.Write(b)
	return h.Sum64()
}

// ---------------------------------------------------------------------------------------------
// Known findings

type Finding struct {
	Property string `json:"property"`
	Key      string `json:"key"`
	Status   string `json:"status"` // "open" | "fixed"
	Commit   string `json:"commit,omitempty"`
	What     string `json:"what"`
}

var (
	knownOnce sync.Once
	knownOpen map[string]Finding
)

func openFinding(key string) (Finding, bool) {
	knownOnce.Do(func() {
		knownOpen = map[string]Finding{}
		p := os.Getenv("VERIF_KNOWN")
		if p == "" {
			return
		}
		b, err := os.ReadFile(p)
		if err != nil {
			return
		}
		var fs []Finding
		if json.Unmarshal(b, &fs) != nil {
			return
		}
		for _, f := range fs {
			if f.Status == "open" {
				knownOpen[f.Key] = f
			}
		}
	})
	f, ok := knownOpen[key]
	return f, ok
}

// IsOpenFinding lets generators exclude a known-defective input class by construction.
func IsOpenFinding(key string) bool {
	_, ok := openFinding(key)
	return ok
}

// ---------------------------------------------------------------------------------------------
// Running one case

func writeFileSync(path string, b []byte) {
	f, err := os.OpenFile(path, os.O_CREATE|os.O_TRUNC|os.O_WRONLY, 0o644)
	if err != nil {
		return
	}
	f.Write(b)
	f.Close()
}

// panicOrigin returns the first frame below the panic call that is not the runtime's, as
// "function file:line", from a debug.Stack() dump taken inside the recovering deferred function.
func panicOrigin(stack string) string {
	lines := strings.Split(stack, "\n")
	for i := 0; i+1 < len(lines); i++ {
		if !strings.HasPrefix(lines[i], "panic(") {
			continue
		}
		for j := i + 2; j+1 < len(lines); j += 2 {
			if strings.HasPrefix(lines[j], "runtime.") {
				continue
			}
			return lines[j] + " " + strings.TrimSpace(lines[j+1])
		}
	}
	return ""
}

// runRecovering runs the executor; a panic that originates in the library under test while the
// executor's own goroutine is inside one of its exported calls is a verdict (the call neither returned
// nor failed cleanly), any other panic is a harness bug and is re-raised.
func (p *Prop) runRecovering(sc any, c *Case) (v *Violation) {
	defer func() {
		r := recover()
		if r == nil {
			return
		}
		origin := panicOrigin(string(debug.Stack()))
		if strings.Contains(origin, "/repo/") || strings.Contains(origin, "github.com/anacrolix/dht/v2") {
			c.Inconclusive = ""
			v = Violatef(p.ID[:3]+":api-call-panicked", "an exported call made by the check panicked inside the library: %v (raised at %s)", r, origin)
			return
		}
		panic(r)
	}()
	return p.run(sc, c)
}

// RunCase executes one scenario with journal + accounting. It returns the violation (nil if the
// property held or the failure is a listed open finding).
func (p *Prop) RunCase(sc any) *Violation {
	b, err := json.Marshal(sc)
	if err != nil {
		panic(fmt.Sprintf("scenario of %s not serialisable: %v", p.ID, err))
	}
	jdir := os.Getenv("VERIF_JOURNAL")
	if jdir != "" {
		writeFileSync(jdir+"/current.json", mustJSON(map[string]any{"sub": p.ID, "scenario": json.RawMessage(b)}))
	}
	c := &Case{}
	v := p.runRecovering(sc, c)
	cur.mu.Lock()
	defer cur.mu.Unlock()
	f := &cur.frag
	f.Sub = p.ID
	f.Rule = p.Rule
	f.Assumptions = p.Assumptions
	f.Evaluations++
	for _, l := range c.labels {
		f.Labels[l]++
	}
	if c.Inconclusive != "" {
		f.Inconclusive++
		if len(f.InconclusiveWhy) < 5 {
			f.InconclusiveWhy = append(f.InconclusiveWhy, c.Inconclusive)
		}
		if f.Inconclusive >= 25 && f.Inconclusive*4 > f.Evaluations {
			// most cases cannot be decided (a wedged node, an overloaded machine): stop instead of burning the
			// job's whole wall-clock limit ten seconds at a time; the driver reports the job as inconclusive
			TooManyInconclusive = true
		}
		return nil
	}
	if c.nontrivial {
		f.NonTrivial++
		d := Digest(b)
		if _, ok := cur.digests[d]; !ok && len(cur.digests) < maxDigests {
			cur.digests[d] = struct{}{}
			// first three and then a sparse sample
			n := len(cur.digests)
			if len(f.Samples) < 3 || (len(f.Samples) < 6 && n%997 == 0) {
				if len(b) < 20000 {
					f.Samples = append(f.Samples, json.RawMessage(b))
				}
			}
		}
	}
	if v == nil {
		return nil
	}
	if kf, ok := openFinding(v.Key); ok {
		f.Known[v.Key]++
		f.KnownWhat[v.Key] = kf.What
		return nil
	}
	rec := FailRecord{Sub: p.ID, Key: v.Key, Msg: v.Msg, Scenario: b, Trace: c.Trace}
	if jdir != "" {
		writeFileSync(jdir+"/lastfail.json", mustJSON(rec))
	}
	// keep only the latest (= most shrunk) failure per key
	replaced := false
	for i := range f.Violations {
		if f.Violations[i].Key == v.Key {
			f.Violations[i] = rec
			replaced = true
		}
	}
	if !replaced {
		f.Violations = append(f.Violations, rec)
	}
	return v
}

// TooManyInconclusive is set when a run should be abandoned as undecidable (see RunCase).
var TooManyInconclusive bool

// Confirm re-executes a scenario whose first execution produced a violation of one of the given
// keys, up to n-1 more times, and keeps the violation only if every execution produces one. It is
// for verdicts that an *independent, already recorded* schedule-dependent defect can produce now and
// then (a lookup that ends early because of the stale stall report, known finding F10): a genuine
// violation of this property is a function of the scenario and shows up every time.
func Confirm(v *Violation, n int, keys []string, again func() *Violation) *Violation {
	if v == nil {
		return nil
	}
	match := false
	for _, k := range keys {
		if v.Key == k {
			match = true
		}
	}
	if !match {
		return v
	}
	for i := 1; i < n; i++ {
		if w := again(); w == nil {
			return nil
		}
	}
	return v
}

func (p *Prop) Gen(t *rapid.T) any { return p.gen(t) }

func (p *Prop) Decode(b []byte) (any, error) { return p.decode(b) }

func mustJSON(v any) []byte {
	b, err := json.Marshal(v)
	if err != nil {
		panic(err)
	}
	return b
}

// Flush writes the evidence fragment to $VERIF_OUT (called from TestMain).
func Flush() {
	path := os.Getenv("VERIF_OUT")
	if path == "" {
		return
	}
	cur.mu.Lock()
	defer cur.mu.Unlock()
	f := &cur.frag
	f.Digests = f.Digests[:0]
	for d := range cur.digests {
		f.Digests = append(f.Digests, d)
	}
	sort.Slice(f.Digests, func(i, j int) bool { return f.Digests[i] < f.Digests[j] })
	f.WallS = time.Since(cur.start).Seconds()
	writeFileSync(path, mustJSON(f))
}

// Hex is a byte string that serialises as a hex string in scenarios.
type Hex []byte

func (h Hex) MarshalJSON() ([]byte, error) {
	const digits = "0123456789abcdef"
	b := make([]byte, 0, 2+2*len(h))
	b = append(b, '"')
	for _, c := range h {
		b = append(b, digits[c>>4], digits[c&15])
	}
	b = append(b, '"')
	return b, nil
}

func (h *Hex) UnmarshalJSON(b []byte) error {
	if string(b) == "null" {
		*h = nil
		return nil
	}
	if len(b) < 2 || b[0] != '"' || b[len(b)-1] != '"' || len(b)%2 != 0 {
		return fmt.Errorf("bad hex %q", b)
	}
	b = b[1 : len(b)-1]
	out := make([]byte, len(b)/2)
	for i := range out {
		hi, lo := unhex(b[2*i]), unhex(b[2*i+1])
		if hi < 0 || lo < 0 {
			return fmt.Errorf("bad hex digit")
		}
		out[i] = byte(hi<<4 | lo)
	}
	*h = out
	return nil
}

func unhex(c byte) int {
	switch {
	case c >= '0' && c <= '9':
		return int(c - '0')
	case c >= 'a' && c <= 'f':
		return int(c-'a') + 10
	case c >= 'A' && c <= 'F':
		return int(c-'A') + 10
	}
	return -1
}
