package refmodel

import (
	"crypto/ed25519"
	"crypto/sha1"
	"strconv"
)

// Bep44SignBuf is the buffer BEP 44 signs: optional "4:salt<len>:<salt>", then "3:seqi<seq>e1:v"
// followed by the bencoded value. Written from the BEP text.
func Bep44SignBuf(salt []byte, seq int64, encodedV []byte) []byte {
	var b []byte
	if len(salt) > 0 {
		b = append(b, "4:salt"...)
		b = strconv.AppendInt(b, int64(len(salt)), 10)
		b = append(b, ':')
		b = append(b, salt...)
	}
	b = append(b, "3:seqi"...)
	b = strconv.AppendInt(b, seq, 10)
	b = append(b, "e1:v"...)
	b = append(b, encodedV...)
	return b
}

func Bep44Sign(priv ed25519.PrivateKey, salt []byte, seq int64, encodedV []byte) []byte {
	return ed25519.Sign(priv, Bep44SignBuf(salt, seq, encodedV))
}

func Bep44Verify(pub []byte, salt []byte, seq int64, encodedV []byte, sig []byte) bool {
	if len(pub) != ed25519.PublicKeySize || len(sig) != ed25519.SignatureSize {
		return false
	}
	return ed25519.Verify(ed25519.PublicKey(pub), Bep44SignBuf(salt, seq, encodedV), sig)
}

func Bep44MutableTarget(pub []byte, salt []byte) [20]byte {
	return sha1.Sum(append(append([]byte(nil), pub...), salt...))
}

func Bep44ImmutableTarget(encodedV []byte) [20]byte { return sha1.Sum(encodedV) }

// Bep44KeyFromSeed derives a deterministic ed25519 key pair from a small integer.
func Bep44KeyFromSeed(n int) (ed25519.PublicKey, ed25519.PrivateKey) {
	seed := make([]byte, ed25519.SeedSize)
	seed[0], seed[1], seed[2] = byte(n), byte(n>>8), 0x44
	priv := ed25519.NewKeyFromSeed(seed)
	return priv.Public().(ed25519.PublicKey), priv
}

// Bep44Rule is the sequential acceptance rule of BEP 44 as the property states it. stored == nil
// when nothing (unexpired) is stored. It returns whether the put must be accepted and, if not, the
// set of error codes that apply.
type Bep44Stored struct {
	Seq int64
	V   string // encoded value
}

func Bep44Rule(stored *Bep44Stored, seq, cas int64, v string) (accept bool, codes map[int64]bool, either bool) {
	codes = map[int64]bool{}
	if stored == nil {
		return true, codes, false
	}
	sameRefresh := stored.Seq == seq && stored.V == v
	if seq < stored.Seq || (seq == stored.Seq && stored.V != v) {
		codes[302] = true
	}
	if cas != 0 && cas != stored.Seq {
		codes[301] = true
		if sameRefresh {
			// state is unchanged either way: accepted or refused 301 are both fine
			return false, codes, true
		}
	}
	return len(codes) == 0, codes, false
}
