package refmodel

import (
	"errors"
	"sort"
	"strconv"
)

// BV is a bencode value: exactly one of the kinds below.
type BV struct {
	Kind byte // 'i', 's', 'l', 'd'
	I    int64
	S    string
	L    []BV
	D    []BKV // in the order they appeared / will be written
}

type BKV struct {
	K string
	V BV
}

func BInt(i int64) BV   { return BV{Kind: 'i', I: i} }
func BStr(s string) BV  { return BV{Kind: 's', S: s} }
func BList(l ...BV) BV  { return BV{Kind: 'l', L: l} }
func BDict(d ...BKV) BV { return BV{Kind: 'd', D: d} }

// Get returns the value under key k of a dictionary.
func (v BV) Get(k string) (BV, bool) {
	if v.Kind != 'd' {
		return BV{}, false
	}
	for _, kv := range v.D {
		if kv.K == k {
			return kv.V, true
		}
	}
	return BV{}, false
}

// Set returns a copy of the dictionary with k set to x (appended if new).
func (v BV) Set(k string, x BV) BV {
	nd := make([]BKV, 0, len(v.D)+1)
	done := false
	for _, kv := range v.D {
		if kv.K == k {
			nd = append(nd, BKV{k, x})
			done = true
		} else {
			nd = append(nd, kv)
		}
	}
	if !done {
		nd = append(nd, BKV{k, x})
	}
	return BV{Kind: 'd', D: nd}
}

// Del returns a copy of the dictionary without key k.
func (v BV) Del(k string) BV {
	nd := make([]BKV, 0, len(v.D))
	for _, kv := range v.D {
		if kv.K != k {
			nd = append(nd, kv)
		}
	}
	return BV{Kind: 'd', D: nd}
}

// Encode writes the value; dictionaries are written in stored order when sorted is false (which
// lets generators produce unsorted / duplicate keys) and in sorted order otherwise.
func (v BV) Encode(sorted bool) []byte { return v.append(nil, sorted) }

func (v BV) append(b []byte, sorted bool) []byte {
	switch v.Kind {
	case 'i':
		b = append(b, 'i')
		b = strconv.AppendInt(b, v.I, 10)
		b = append(b, 'e')
	case 's':
		b = strconv.AppendInt(b, int64(len(v.S)), 10)
		b = append(b, ':')
		b = append(b, v.S...)
	case 'l':
		b = append(b, 'l')
		for _, e := range v.L {
			b = e.append(b, sorted)
		}
		b = append(b, 'e')
	case 'd':
		b = append(b, 'd')
		d := v.D
		if sorted {
			d = append([]BKV(nil), d...)
			sort.SliceStable(d, func(i, j int) bool { return d[i].K < d[j].K })
		}
		for _, kv := range d {
			b = strconv.AppendInt(b, int64(len(kv.K)), 10)
			b = append(b, ':')
			b = append(b, kv.K...)
			b = kv.V.append(b, sorted)
		}
		b = append(b, 'e')
	}
	return b
}

// ToGo converts to the representation the library decodes into interface{}: int64, string,
// []interface{}, map[string]interface{}.
func (v BV) ToGo() any {
	switch v.Kind {
	case 'i':
		return v.I
	case 's':
		return v.S
	case 'l':
		r := make([]any, 0, len(v.L))
		for _, e := range v.L {
			r = append(r, e.ToGo())
		}
		return r
	case 'd':
		r := map[string]any{}
		for _, kv := range v.D {
			r[kv.K] = kv.V.ToGo()
		}
		return r
	}
	return nil
}

var ErrBencode = errors.New("bencode syntax")

// Parse reads one value from b and returns it with the number of bytes consumed. It is lenient
// about key order and duplicates (it is used to classify generated datagrams, not as an oracle).
func Parse(b []byte) (BV, int, error) { return parse(b, 0, 0) }

func parse(b []byte, p, depth int) (BV, int, error) {
	if p >= len(b) || depth > 200 {
		return BV{}, p, ErrBencode
	}
	switch c := b[p]; {
	case c == 'i':
		e := p + 1
		for e < len(b) && b[e] != 'e' {
			e++
		}
		if e >= len(b) {
			return BV{}, p, ErrBencode
		}
		n, err := strconv.ParseInt(string(b[p+1:e]), 10, 64)
		if err != nil {
			return BV{}, p, ErrBencode
		}
		return BInt(n), e + 1, nil
	case c >= '0' && c <= '9':
		e := p
		for e < len(b) && b[e] != ':' {
			if b[e] < '0' || b[e] > '9' {
				return BV{}, p, ErrBencode
			}
			e++
		}
		if e >= len(b) || e-p > 9 {
			return BV{}, p, ErrBencode
		}
		n, _ := strconv.Atoi(string(b[p:e]))
		if e+1+n > len(b) {
			return BV{}, p, ErrBencode
		}
		return BStr(string(b[e+1 : e+1+n])), e + 1 + n, nil
	case c == 'l':
		p++
		var l []BV
		for {
			if p >= len(b) {
				return BV{}, p, ErrBencode
			}
			if b[p] == 'e' {
				return BV{Kind: 'l', L: l}, p + 1, nil
			}
			v, np, err := parse(b, p, depth+1)
			if err != nil {
				return BV{}, p, err
			}
			l = append(l, v)
			p = np
		}
	case c == 'd':
		p++
		var d []BKV
		for {
			if p >= len(b) {
				return BV{}, p, ErrBencode
			}
			if b[p] == 'e' {
				return BV{Kind: 'd', D: d}, p + 1, nil
			}
			k, np, err := parse(b, p, depth+1)
			if err != nil || k.Kind != 's' {
				return BV{}, p, ErrBencode
			}
			v, np2, err := parse(b, np, depth+1)
			if err != nil {
				return BV{}, p, err
			}
			d = append(d, BKV{k.S, v})
			p = np2
		}
	}
	return BV{}, p, ErrBencode
}
