package refmodel

import "net"

// crc32c computes CRC32-C (Castagnoli, reflected polynomial 0x82F63B78) bit by bit, without tables.
func crc32c(data []byte) uint32 {
	crc := ^uint32(0)
	for _, b := range data {
		crc ^= uint32(b)
		for i := 0; i < 8; i++ {
			if crc&1 != 0 {
				crc = crc>>1 ^ 0x82F63B78
			} else {
				crc >>= 1
			}
		}
	}
	return ^crc
}

// Bep42CRC is the BEP 42 checksum for an address and the value r (low three bits used).
func Bep42CRC(ip net.IP, r byte) uint32 {
	var buf []byte
	if v4 := ip.To4(); v4 != nil {
		mask := [4]byte{0x03, 0x0f, 0x3f, 0xff}
		buf = make([]byte, 4)
		for i := range buf {
			buf[i] = v4[i] & mask[i]
		}
	} else {
		mask := [8]byte{0x01, 0x03, 0x07, 0x0f, 0x1f, 0x3f, 0x7f, 0xff}
		buf = make([]byte, 8)
		for i := range buf {
			buf[i] = ip[i] & mask[i]
		}
	}
	buf[0] |= (r & 7) << 5
	return crc32c(buf)
}

// Bep42Match reports whether the first 21 bits of id equal the first 21 bits of the checksum.
func Bep42Match(id ID, ip net.IP) bool {
	crc := Bep42CRC(ip, id[19])
	return id[0] == byte(crc>>24) && id[1] == byte(crc>>16) && id[2]&0xf8 == byte(crc>>8)&0xf8
}

// Bep42Exempt: private, loopback and link-local addresses, for which every ID is accepted.
func Bep42Exempt(ip net.IP) bool {
	if v4 := ip.To4(); v4 != nil {
		switch {
		case v4[0] == 10:
			return true
		case v4[0] == 172 && v4[1]&0xf0 == 16:
			return true
		case v4[0] == 192 && v4[1] == 168:
			return true
		case v4[0] == 169 && v4[1] == 254:
			return true
		case v4[0] == 127:
			return true
		}
		return false
	}
	if len(ip) != 16 {
		return false
	}
	if ip[0] == 0xfe && ip[1]&0xc0 == 0x80 { // fe80::/10
		return true
	}
	loop := true
	for i := 0; i < 15; i++ {
		if ip[i] != 0 {
			loop = false
		}
	}
	return loop && ip[15] == 1
}

// Bep42Secure returns id with its first 21 bits replaced by the checksum's.
func Bep42Secure(id ID, ip net.IP) ID {
	crc := Bep42CRC(ip, id[19])
	id[0] = byte(crc >> 24)
	id[1] = byte(crc >> 16)
	id[2] = byte(crc>>8)&0xf8 | id[2]&7
	return id
}
