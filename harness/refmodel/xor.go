// Package refmodel holds the independent reference models the oracles compare against. Nothing here
// imports the dht module.
package refmodel

import (
	"math/big"
	"net"
)

type ID = [20]byte

func Xor(a, b ID) (r ID) {
	for i := range a {
		r[i] = a[i] ^ b[i]
	}
	return
}

func Big(a ID) *big.Int { return new(big.Int).SetBytes(a[:]) }

// DistCmp compares dist(a,t) with dist(b,t) as unsigned 160-bit integers.
func DistCmp(a, b, t ID) int { return Big(Xor(a, t)).Cmp(Big(Xor(b, t))) }

// CommonPrefixLen is the number of leading bits a and b share (160 if equal), by bit scan.
func CommonPrefixLen(a, b ID) int {
	for i := 0; i < 160; i++ {
		ba := a[i/8] >> (7 - uint(i%8)) & 1
		bb := b[i/8] >> (7 - uint(i%8)) & 1
		if ba != bb {
			return i
		}
	}
	return 160
}

// WithPrefix returns an ID sharing exactly n leading bits with root (bit n flipped), the rest from tail.
func WithPrefix(root ID, n int, tail ID) ID {
	if n >= 160 {
		return root
	}
	var r ID
	for i := 0; i < 160; i++ {
		var bit byte
		switch {
		case i < n:
			bit = root[i/8] >> (7 - uint(i%8)) & 1
		case i == n:
			bit = (root[i/8]>>(7-uint(i%8)))&1 ^ 1
		default:
			bit = tail[i/8] >> (7 - uint(i%8)) & 1
		}
		r[i/8] |= bit << (7 - uint(i%8))
	}
	return r
}

// Unmap returns the 4-byte form of an IPv4 or v4-mapped address and the 16-byte form otherwise.
func Unmap(ip net.IP) net.IP {
	if v4 := ip.To4(); v4 != nil {
		return v4
	}
	return ip
}
