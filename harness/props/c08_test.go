package props

// C08 — Replies go to the asker, echo its transaction ID, and use the right KRPC form.

import (
	"bytes"
	"context"
	"fmt"
	"net"
	"sync"
	"time"

	dht "github.com/anacrolix/dht/v2"
	"github.com/anacrolix/dht/v2/bep44"
	"github.com/anacrolix/dht/v2/krpc"

	"pgregory.net/rapid"

	"testing"
	"verifharness/kit"
	"verifharness/refmodel"
	"verifharness/simnet"
)

type C08Cfg struct {
	Passive   bool
	Hook      string
	PeerStore bool
	Dual      bool
	NodeID    kit.Hex
	// FaultyStore: the BEP 44 store is a backend that fails (plain or KRPC error) for some targets
	FaultyStore bool
	// Security: BEP 42 is enforced (senders' IDs are mostly not valid for their addresses; replies are
	// owed all the same)
	Security bool
	// Blocklist: an IP blocklist is installed that covers the sources of the messages marked Blocked
	Blocklist bool
}

type C08Msg struct {
	Src    Src
	Kind   string // query | response | error | unknown-y | no-y
	Method string
	T      kit.Hex
	Args   string // full | none | partial
	// full arguments
	Target, InfoHash kit.Hex
	Want             []string
	Port             int
	Implied          bool
	Token            string // "valid" (obtained from this node for this IP) | "bogus" | "absent"
	V                kit.Hex
	SenderID         kit.Hex
	RO               bool
	// put: a mutable item under one fixed key, so that puts within a scenario collide on one target and
	// the store refuses some of them (stale seq): the refusal must still be the only datagram
	PutSeq int64
	PutVal int
	// SameT: when the message is injected, a query of this node to the message's source is outstanding,
	// and the message carries that query's transaction ID instead of T.
	SameT bool
	// Known: before the batch, the sender is put into the routing table through AddNode under the ID it
	// will use: 1 = with its address in the byte form the socket reports, 2 = in the other byte form of
	// the same IPv4 address (4-byte <-> v4-mapped 16-byte).
	Known int
	// Blocked: the source's IP is on the node's blocklist: nothing is owed to it, and a query of the
	// node's own to it (SameT) is refused before it reaches the socket
	Blocked bool
}

type C08Sc struct {
	Cfg     C08Cfg
	Batches [][]C08Msg
}

var c08Methods = []string{"ping", "find_node", "get_peers", "get", "announce_peer", "put", "sample_infohashes", "vote", "", "PING", "find_nodes"}

func genT(t *rapid.T, label string) []byte {
	switch rapid.IntRange(0, 6).Draw(t, label+".kind") {
	case 0:
		return []byte{}
	case 1:
		return genBytes(t, 1, 40, label)
	case 2:
		return []byte("aa")
	case 3:
		return []byte{0}
	case 4:
		return []byte{0xff, 0x00, 'e', ':'}
	default:
		return genBytes(t, 1, 4, label)
	}
}

func genWant(t *rapid.T, label string) []string {
	switch rapid.IntRange(0, 5).Draw(t, label) {
	case 0:
		return []string{"n4"}
	case 1:
		return []string{"n6"}
	case 2:
		return []string{"n4", "n6"}
	case 3:
		return []string{"n5"}
	default:
		return nil
	}
}

func genC08(t *rapid.T) C08Sc {
	var sc C08Sc
	sc.Cfg.Dual = rapid.Bool().Draw(t, "dual")
	sc.Cfg.PeerStore = rapid.Bool().Draw(t, "peerstore")
	switch rapid.IntRange(0, 9).Draw(t, "mode") {
	case 0:
		sc.Cfg.Passive = true
	case 1:
		sc.Cfg.Hook = "veto"
	case 2, 3:
		sc.Cfg.Hook = "allow"
	}
	sc.Cfg.NodeID = genBytesN(t, 20, "nodeid")
	sc.Cfg.FaultyStore = uniformInt(t, 4, "faultystore") == 0
	sc.Cfg.Security = uniformInt(t, 4, "security") == 0
	sc.Cfg.Blocklist = uniformInt(t, 4, "blocklist") == 0
	nb := rapid.IntRange(1, 4).Draw(t, "nbatches")
	for b := 0; b < nb; b++ {
		var batch []C08Msg
		used := map[string]bool{}
		n := rapid.IntRange(1, 8).Draw(t, "nmsgs")
		for i := 0; i < n; i++ {
			m := C08Msg{Src: genSrc(t, sc.Cfg.Dual, "src")}
			if sc.Cfg.Dual && uniformInt(t, 8, "src.linklocal") == 0 {
				// a link-local IPv6 peer: the socket reports its scope zone along with the address
				ip := net.ParseIP("fe80::1").To16()
				ip[15] = byte(1 + uniformInt(t, 4, "src.llhost"))
				m.Src.IP, m.Src.Zone = kit.Hex(ip), pick(t, "src.zone", "eth0", "eth0", "2", "")
			}
			// sources within a batch are distinct endpoints so that replies can be attributed
			if used[m.Src.String()] {
				continue
			}
			used[m.Src.String()] = true
			m.Kind = rapid.SampledFrom([]string{"query", "query", "query", "query", "response", "error", "unknown-y", "no-y"}).Draw(t, "kind")
			m.Method = rapid.SampledFrom(c08Methods).Draw(t, "method")
			m.T = genT(t, "t")
			m.Args = rapid.SampledFrom([]string{"full", "full", "full", "none", "partial"}).Draw(t, "args")
			m.Target = genBytesN(t, 20, "target")
			m.InfoHash = genBytesN(t, 20, "infohash")
			m.Want = genWant(t, "want")
			m.Port = genPort(t, "port")
			m.Implied = rapid.Bool().Draw(t, "implied")
			m.Token = rapid.SampledFrom([]string{"valid", "valid", "bogus", "absent"}).Draw(t, "token")
			m.V = genBV(t, 1, "v").Encode(true)
			m.SenderID = genBytesN(t, 20, "senderid")
			switch uniformInt(t, 10, "senderid.kind") {
			case 0: // claims the node's own ID
				m.SenderID = append(kit.Hex(nil), sc.Cfg.NodeID...)
			case 1: // the node's nearest possible neighbour
				m.SenderID = append(kit.Hex(nil), sc.Cfg.NodeID...)
				m.SenderID[19] ^= 1
			case 2:
				m.SenderID = make(kit.Hex, 20)
			}
			m.Known = []int{0, 0, 0, 1, 2}[uniformInt(t, 5, "known")]
			m.Blocked = sc.Cfg.Blocklist && uniformInt(t, 4, "blocked") == 0
			m.RO = rapid.IntRange(0, 5).Draw(t, "ro") == 0
			m.PutSeq = rapid.Int64Range(0, 3).Draw(t, "putseq")
			m.PutVal = rapid.IntRange(0, len(c13Values)-1).Draw(t, "putval")
			m.SameT = rapid.IntRange(0, 3).Draw(t, "samet") == 0
			batch = append(batch, m)
		}
		sc.Batches = append(sc.Batches, batch)
	}
	return sc
}

// compactAddrMatches: `ip` must be the requester's compact address (6 or 18 bytes).
func compactAddrMatches(b string, src *net.UDPAddr) bool {
	if len(b) != 6 && len(b) != 18 {
		return false
	}
	ip := net.IP([]byte(b[:len(b)-2]))
	port := int(b[len(b)-2])<<8 | int(b[len(b)-1])
	if len(src.IP) == 4 && len(b) != 6 {
		return false // an IPv4 socket's peer has a 6-byte compact address
	}
	if src.IP.To4() == nil && len(b) != 18 {
		return false
	}
	return port == src.Port && ip.Equal(src.IP)
}

func (m C08Msg) build(token string) []byte {
	var t []byte = m.T
	id := arr20(m.SenderID)
	switch m.Kind {
	case "response":
		return mkResponse(t, BV{Kind: 'd', D: []BKV{{K: "id", V: bs(id[:])}}})
	case "error":
		return mkError(t, 201, "generic")
	case "unknown-y":
		return BV{Kind: 'd', D: []BKV{{K: "q", V: bstr(m.Method)}, {K: "t", V: bs(t)}, {K: "y", V: bstr("x")}}}.Encode(true)
	case "no-y":
		return BV{Kind: 'd', D: []BKV{{K: "a", V: *mkArgs(id)}, {K: "q", V: bstr(m.Method)}, {K: "t", V: bs(t)}}}.Encode(true)
	}
	var args *BV
	switch m.Args {
	case "none":
		args = nil
	case "partial":
		args = mkArgs(id)
	default:
		kv := []BKV{}
		switch m.Method {
		case "find_node":
			kv = append(kv, BKV{K: "target", V: bs(m.Target)})
		case "get_peers":
			kv = append(kv, BKV{K: "info_hash", V: bs(m.InfoHash)})
		case "get":
			kv = append(kv, BKV{K: "target", V: bs(m.Target)})
		case "announce_peer":
			kv = append(kv, BKV{K: "info_hash", V: bs(m.InfoHash)}, BKV{K: "port", V: bint(int64(m.Port))})
			if m.Implied {
				kv = append(kv, BKV{K: "implied_port", V: bint(1)})
			}
		case "put":
			if m.PutVal%2 == 0 {
				// mutable, signed, colliding target
				k := b44Key(8)
				encV := c13Values[m.PutVal]
				v, _, _ := refmodel.Parse([]byte(encV))
				kv = append(kv, BKV{K: "v", V: v}, BKV{K: "seq", V: bint(m.PutSeq)}, BKV{K: "k", V: bs(k.pub)}, BKV{K: "sig", V: bs(refmodel.Bep44Sign(k.priv, nil, m.PutSeq, []byte(encV)))})
			} else {
				v, _, _ := refmodel.Parse(m.V)
				kv = append(kv, BKV{K: "v", V: v}, BKV{K: "seq", V: bint(0)})
			}
		default:
			kv = append(kv, BKV{K: "target", V: bs(m.Target)})
		}
		if m.Method == "announce_peer" || m.Method == "put" {
			switch m.Token {
			case "valid":
				kv = append(kv, BKV{K: "token", V: bstr(token)})
			case "bogus":
				kv = append(kv, BKV{K: "token", V: bstr("not-a-token")})
			}
		}
		if len(m.Want) > 0 {
			var l []BV
			for _, w := range m.Want {
				l = append(l, bstr(w))
			}
			kv = append(kv, BKV{K: "want", V: BV{Kind: 'l', L: l}})
		}
		args = mkArgs(id, kv...)
	}
	b := mkQuery(t, m.Method, args)
	if m.RO {
		v, _, _ := refmodel.Parse(b)
		b = v.Set("ro", bint(1)).Encode(true)
	}
	return b
}

func runC08(sc C08Sc, c *kit.Case) *kit.Violation {
	opts := SrvOpts{NodeID: arr20(sc.Cfg.NodeID), Passive: sc.Cfg.Passive, Hook: sc.Cfg.Hook, PeerStore: sc.Cfg.PeerStore, Security: sc.Cfg.Security}
	if sc.Cfg.Security {
		c.Label("security-enforced")
	}
	if sc.Cfg.FaultyStore {
		opts.Store = faultyStore{bep44.NewMemory()}
		c.Label("faulty-store")
	}
	blockedIP := func(ip net.IP) bool {
		for _, b := range sc.Batches {
			for _, m := range b {
				if m.Blocked && m.Src.NetIP().Equal(ip) {
					return true
				}
			}
		}
		return false
	}
	if sc.Cfg.Blocklist {
		bs := &blockSet{}
		for _, b := range sc.Batches {
			for _, m := range b {
				if m.Blocked {
					bs.ips = append(bs.ips, m.Src.NetIP())
				}
			}
		}
		opts.Blocklist = bs
		c.Label("blocklist-installed")
	}
	sv := newSrv(opts)
	defer sv.Close()
	silent := sc.Cfg.Passive || sc.Cfg.Hook == "veto"
	if sc.Cfg.Passive {
		c.Label("passive")
	}
	c.Label("hook-" + sc.Cfg.Hook)
	tokSeq := 0
	// outbound queries of the node under test (SameT messages)
	var obMu sync.Mutex
	var obWait chan string
	sv.C.DelayHook = func(int64, bool) time.Duration { return time.Hour } // an outstanding query stays outstanding
	sv.C.BeforeWrite = func(to *net.UDPAddr, data []byte) {
		obMu.Lock()
		w := obWait
		obMu.Unlock()
		if w == nil {
			return
		}
		if v, _, err := refmodel.Parse(data); err == nil {
			if y, _ := v.Get("y"); y.S == "q" {
				tv, _ := v.Get("t")
				select {
				case w <- tv.S:
				default:
				}
			}
		}
	}
	for bi, batch := range sc.Batches {
		batch = append([]C08Msg(nil), batch...)
		// Obtain genuine tokens first (one `get` per source IP that needs one). These exchanges are
		// themselves queries and are judged like any other.
		tokens := map[int]string{}
		if !silent {
			for i, m := range batch {
				if m.Kind == "query" && m.Args == "full" && (m.Method == "announce_peer" || m.Method == "put") && m.Token == "valid" && !blockedIP(m.Src.NetIP()) {
					tokSeq++
					tt := []byte(fmt.Sprintf("tk%d", tokSeq))
					// from another port of the same IP: a token is bound to the IP only
					from := &net.UDPAddr{IP: m.Src.NetIP(), Port: 1 + (m.Src.Port+7)%65535}
					mark := sv.C.NumOut()
					sv.C.Inject(from, mkQuery(tt, "get", mkArgs(arr20(m.SenderID), BKV{K: "target", V: bs(m.Target)})))
					if !sv.barrier(c) {
						return nil
					}
					outs := outsFrom(sv.C, mark)
					if len(outs) != 1 || !outs[0].OK || outs[0].T != string(tt) {
						if !waitFor(2*time.Second, func() bool { return len(outsFrom(sv.C, mark)) >= 1 }) {
							return kit.Violatef("C08:no-reply", "well-formed get from %v got no reply (batch %d)", from, bi)
						}
						outs = outsFrom(sv.C, mark)
					}
					if r, ok := outs[0].R(); ok {
						if tk, ok := r.Get("token"); ok && tk.Kind == 's' {
							tokens[i] = tk.S
						}
					}
				}
			}
		}
		for _, m := range batch {
			if m.Known == 0 || m.Kind != "query" || arr20(m.SenderID) == [20]byte{} {
				continue // (AddNode with a zero ID pings instead of adding)
			}
			ip := m.Src.NetIP()
			if m.Known == 2 {
				if ip4 := ip.To4(); ip4 != nil {
					if len(ip) == 4 {
						ip = ip.To16()
					} else {
						ip = ip4
					}
					c.Label("known-in-other-byte-form")
				}
			}
			added := make(chan struct{})
			ni := krpc.NodeInfo{ID: arr20(m.SenderID), Addr: krpc.NodeAddr{IP: append(net.IP(nil), ip...), Port: m.Src.Port}}
			simnet.Go(func() { sv.S.AddNode(ni); close(added) })
			select {
			case <-added:
			case <-time.After(10 * time.Second):
				if ok, who := sv.C.AllBlocked(); !ok {
					c.Inconclusive = "AddNode still running after 10 s with runnable goroutines: " + who
					return nil
				}
				return kit.Violatef("C08:node-wedged", "AddNode does not return although every goroutine of the library is blocked (a lock was left held): later queries cannot be answered")
			}
		}
		if v := sv.barrierOrWedged(c, "C08", fmt.Sprintf("before batch %d", bi)); v != nil || c.Inconclusive != "" {
			return v
		}
		// start the outbound queries whose transaction IDs the SameT messages will carry
		var obCancels []context.CancelFunc
		obDone := make(chan dht.QueryResult, len(batch))
		nOb := 0
		finishOutbound := func() bool {
			for _, cf := range obCancels {
				cf()
			}
			for ; nOb > 0; nOb-- {
				select {
				case <-obDone:
				case <-time.After(5 * time.Second):
					c.Inconclusive = "a cancelled outbound query did not return within 5 s"
					return false
				}
			}
			return true
		}
		for i := range batch {
			if !batch[i].SameT {
				continue
			}
			if blockedIP(batch[i].Src.NetIP()) {
				// the node's own query to a blocked address is refused before the socket: it fails, cleanly
				res := make(chan dht.QueryResult, 1)
				bdest := batch[i].Src.UDP()
				simnet.Go(func() {
					res <- sv.S.Query(context.Background(), dht.NewAddr(bdest), "ping", dht.QueryInput{NumTries: 1})
				})
				select {
				case r := <-res:
					if r.Err == nil {
						return kit.Violatef("C08:reply-to-non-query", "a query of the node's own to the blocklisted address %v returned a reply", bdest)
					}
				case <-time.After(10 * time.Second):
					if ok, who := sv.C.AllBlocked(); !ok {
						c.Inconclusive = "a query to a blocked address still running after 10 s with runnable goroutines: " + who
						return nil
					}
					return kit.Violatef("C08:node-wedged", "a query of the node's own to the blocklisted address %v does not return although every goroutine of the library is blocked (a lock was left held): later queries cannot be answered", bdest)
				}
				c.Label("own-query-to-blocked-address")
				continue
			}
			w := make(chan string, 1)
			obMu.Lock()
			obWait = w
			obMu.Unlock()
			ctx, cancel := context.WithCancel(context.Background())
			obCancels = append(obCancels, cancel)
			dest := batch[i].Src.UDP()
			nOb++
			simnet.Go(func() {
				obDone <- sv.S.Query(ctx, dht.NewAddr(dest), "ping", dht.QueryInput{})
			})
			select {
			case tt := <-w:
				batch[i].T = kit.Hex(tt)
				c.Label("same-t-as-outstanding-" + batch[i].Kind)
			case <-time.After(10 * time.Second):
				obMu.Lock()
				obWait = nil
				obMu.Unlock()
				finishOutbound()
				c.Inconclusive = "outbound query datagram did not reach the socket within 10 s"
				return nil
			}
			obMu.Lock()
			obWait = nil
			obMu.Unlock()
		}
		if nOb > 0 && !sv.barrier(c) {
			finishOutbound()
			return nil
		}
		mark := sv.C.NumOut()
		for i, m := range batch {
			sv.C.Inject(m.Src.UDP(), m.build(tokens[i]))
		}
		if v := sv.barrierOrWedged(c, "C08", fmt.Sprintf("after batch %d", bi)); v != nil || c.Inconclusive != "" {
			finishOutbound()
			return v
		}
		judge := func() *kit.Violation {
			outs := outsFrom(sv.C, mark)
			// attribute every datagram to a message of this batch by destination endpoint
			perMsg := make([][]OutMsg, len(batch))
			for _, o := range outs {
				found := -1
				for i, m := range batch {
					if o.To != nil && o.To.String() == m.Src.UDP().String() {
						found = i
					}
				}
				if found < 0 {
					// maybe right IP, wrong port, or an entirely foreign destination
					return kit.Violatef("C08:wrong-destination", "datagram sent to %v, which is not the source of any message in the batch (sources %v): %s", o.To, batchSources(batch), o.Describe())
				}
				perMsg[found] = append(perMsg[found], o)
			}
			for i, m := range batch {
				got := perMsg[i]
				if blockedIP(m.Src.NetIP()) {
					if len(got) != 0 {
						return kit.Violatef("C08:wrong-destination", "a datagram was sent to the blocklisted source %v: %s", m.Src, got[0].Describe())
					}
					continue
				}
				if m.Kind != "query" {
					if len(got) != 0 {
						return kit.Violatef("C08:reply-to-non-query", "a %s message from %v caused %d datagram(s): %s", m.Kind, m.Src, len(got), got[0].Describe())
					}
					continue
				}
				if silent {
					if len(got) != 0 {
						return kit.Violatef("C08:passive-or-vetoed-replied", "node is passive/vetoing but sent %s in reaction to %q from %v", got[0].Describe(), m.Method, m.Src)
					}
					continue
				}
				if len(got) > 1 {
					return kit.Violatef("C08:multiple-datagrams", "query %q (args %s) from %v caused %d datagrams: %s ; %s", m.Method, m.Args, m.Src, len(got), got[0].Describe(), got[1].Describe())
				}
				for _, o := range got {
					if !o.OK {
						return kit.Violatef("C08:malformed-reply", "reply is not a bencoded dictionary: %s", o.Describe())
					}
					if !o.HasT || !bytes.Equal([]byte(o.T), m.T) {
						return kit.Violatef("C08:t-not-echoed", "query t=%q from %v answered with t=%q: %s", []byte(m.T), m.Src, o.T, o.Describe())
					}
					switch o.Y {
					case "r":
						r, ok := o.R()
						if !ok || r.Kind != 'd' {
							return kit.Violatef("C08:response-without-r", "%s", o.Describe())
						}
						id, ok := r.Get("id")
						if !ok || id.Kind != 's' || id.S != string(sv.ID[:]) {
							return kit.Violatef("C08:response-wrong-id", "response r.id=%x, node id %x: %s", id.S, sv.ID[:], o.Describe())
						}
						ip, ok := o.V.Get("ip")
						if !ok || ip.Kind != 's' || !compactAddrMatches(ip.S, m.Src.UDP()) {
							return kit.Violatef("C08:response-wrong-ip-field", "response `ip`=%x does not hold the requester's compact address %v: %s", ip.S, m.Src, o.Describe())
						}
					case "e":
						if _, ok := o.ErrCode(); !ok {
							return kit.Violatef("C08:malformed-error", "%s", o.Describe())
						}
					default:
						return kit.Violatef("C08:reply-wrong-type", "reply to a query has y=%q: %s", o.Y, o.Describe())
					}
				}
				// expected form
				known := map[string]bool{"ping": true, "find_node": true, "get_peers": true, "get": true, "announce_peer": true, "put": true}
				needsArgs := map[string]bool{"find_node": true, "get_peers": true, "get": true}
				var want string // "r", "e203", "e204", "any1", "r-or-e203", "e203-or-silence", "silence-or-one"
				switch {
				case !known[m.Method]:
					want = "e204"
				case m.Args == "none" && needsArgs[m.Method]:
					want = "e203"
				case m.Args == "none" && m.Method == "ping":
					want = "r-or-e203"
				case m.Args == "none": // announce_peer / put without arguments: C08 says 203, C10 says silence
					want = "e203-or-silence"
				case m.Method == "announce_peer" || m.Method == "put":
					if m.Args == "full" && m.Token == "valid" && m.Method == "put" {
						want = "one" // the store may refuse it (C12/C13 judge the code); it is answered exactly once either way
					} else if m.Args == "full" && m.Token == "valid" {
						want = "r"
					} else {
						want = "silence-or-one" // token rules belong to C10
					}
				case m.Args == "partial" && m.Method != "ping":
					want = "any1"
				default:
					want = "r"
				}
				if sc.Cfg.FaultyStore && (m.Method == "get" || m.Method == "put") && (want == "r" || want == "one") {
					want = "one" // a failing backend may turn the response into an error; still exactly one, echoing t
				}
				if (want == "r" || want == "one") && (m.Method == "announce_peer" || m.Method == "put") {
					// needs the token to have been obtained
					if _, ok := tokens[i]; !ok {
						want = "silence-or-one"
					}
				}
				check := func() *kit.Violation {
					switch want {
					case "r":
						if len(got) != 1 {
							return kit.Violatef("C08:no-reply", "well-formed %q from %v (t=%q) got %d datagrams", m.Method, m.Src, []byte(m.T), len(got))
						}
						if got[0].Y != "r" {
							return kit.Violatef("C08:expected-response", "well-formed %q from %v answered with %s", m.Method, m.Src, got[0].Describe())
						}
					case "e203", "e204":
						code := int64(203)
						if want == "e204" {
							code = 204
						}
						if len(got) != 1 {
							return kit.Violatef("C08:no-error-reply", "%q (args %s) from %v should get error %d, got %d datagrams", m.Method, m.Args, m.Src, code, len(got))
						}
						if ec, ok := got[0].ErrCode(); got[0].Y != "e" || !ok || ec != code {
							return kit.Violatef(fmt.Sprintf("C08:expected-error-%d", code), "%q (args %s) from %v should get error %d, got %s", m.Method, m.Args, m.Src, code, got[0].Describe())
						}
					case "r-or-e203":
						if len(got) != 1 {
							return kit.Violatef("C08:no-reply", "ping without arguments from %v got %d datagrams", m.Src, len(got))
						}
						if ec, _ := got[0].ErrCode(); !(got[0].Y == "r" || (got[0].Y == "e" && ec == 203)) {
							return kit.Violatef("C08:expected-response", "ping without arguments answered with %s", got[0].Describe())
						}
					case "e203-or-silence":
						if len(got) == 1 {
							if ec, _ := got[0].ErrCode(); got[0].Y != "e" || ec != 203 {
								return kit.Violatef("C08:expected-error-203", "%q without arguments answered with %s", m.Method, got[0].Describe())
							}
						}
					case "one":
						if len(got) != 1 {
							return kit.Violatef("C08:no-reply", "correctly tokened put from %v (t=%q) got %d datagrams", m.Src, []byte(m.T), len(got))
						}
					case "any1":
						if len(got) != 1 {
							return kit.Violatef("C08:no-reply", "%q with partial arguments from %v got %d datagrams", m.Method, m.Src, len(got))
						}
					}
					return nil
				}
				if v := check(); v != nil {
					return v
				}
			}
			return nil
		}
		v := judge()
		if v != nil && (v.Key == "C08:no-reply" || v.Key == "C08:no-error-reply") {
			// negative evidence: give late goroutines a grace period, then judge again
			c.Label("grace-wait")
			waitFor(2*time.Second, func() bool { return judge() == nil })
			v = judge()
		}
		obOK := finishOutbound()
		if v != nil {
			c.Inconclusive = ""
			return v
		}
		if !obOK {
			return nil
		}
		for _, m := range batch {
			if m.SameT {
				c.NonTrivial()
			}
			c.Label("kind-" + m.Kind)
			if m.Kind == "query" {
				c.Label("method-" + m.Method)
				c.Label("args-" + m.Args)
			}
			if m.Kind != "query" || len(m.T) == 0 || !isPrintable(m.T) || m.Args == "none" || !map[string]bool{"ping": true, "find_node": true, "get_peers": true, "get": true, "announce_peer": true, "put": true}[m.Method] {
				c.NonTrivial()
			}
		}
	}
	// "No second datagram ever follows": one more barrier, nothing new may have been written since
	// the last judged batch.
	mark := sv.C.NumOut()
	if !sv.barrier(c) {
		return nil
	}
	if n := sv.C.NumOut(); n != mark {
		return kit.Violatef("C08:late-datagram", "a datagram was written after all batches had been answered: %s", outsFrom(sv.C, mark)[0].Describe())
	}
	return nil
}

func isPrintable(b []byte) bool {
	for _, c := range b {
		if c < 0x20 || c > 0x7e {
			return false
		}
	}
	return true
}

func batchSources(batch []C08Msg) []string {
	var r []string
	for _, m := range batch {
		r = append(r, m.Src.String())
	}
	return r
}

func init() {
	kit.Register("C08a",
		"rapid: batches of 1..8 KRPC messages from distinct IPv4/IPv6/v4-mapped sources injected concurrently: queries of every known and several unknown methods with any transaction ID (0..40 arbitrary bytes) and full/absent/partial argument dictionaries (announce_peer/put with a genuinely obtained token), mixed with responses, errors and messages of unknown or missing type; configurations passive / hook allow / hook veto / peer store on-off / BEP 42 enforced / a store backend that fails for some targets / an IP blocklist covering some sources. Senders may already be in the routing table (under either byte form of their IPv4 address), claim the node's own, its neighbour's or the zero ID, be link-local with a scope zone, and carry the transaction ID of a query the node itself has outstanding to that very address (own queries to blocklisted addresses must fail cleanly). After a quiescence barrier every datagram written is attributed by destination and judged: destination = source IP and port, t byte-identical, at most one per query, response carries the node ID and the requester's compact address, unknown method => 204, missing arguments => 203, nothing for non-queries or when passive/vetoed. Non-trivial: batch contains a non-printable or empty t, an unknown method, a missing `a`, or a non-query message.",
		[]string{"announce_peer/put without an `a` dictionary: one error 203 or silence are both accepted (C08 and C10 overlap)",
			"ping without `a`: a response or error 203 are both accepted",
			"quiescence barrier: serve loop parked and every module goroutine blocked on two consecutive looks; missing replies are re-examined after a 2 s grace wait"},
		genC08, runC08)
}

// FuzzC08Datagram: byte-level coverage-guided target (thorough tier). Any datagram, delivered to a
// fresh node from a fixed source, may cause at most one datagram, and only one addressed to that
// source that echoes the datagram's `t` (as the harness's own bencode reader sees it).
func FuzzC08Datagram(f *testing.F) {
	for _, s := range []string{
		"d1:ad2:id20:abcdefghij0123456789e1:q4:ping1:t2:aa1:y1:qe",
		"d1:ad2:id20:abcdefghij01234567896:target20:mnopqrstuvwxyz123456e1:q9:find_node1:t0:1:y1:qe",
		"d1:ad2:id20:abcdefghij01234567899:info_hash20:mnopqrstuvwxyz123456e1:q9:get_peers1:t3:\x00\xffe1:y1:qe",
		"d1:ad2:id20:abcdefghij01234567896:target20:mnopqrstuvwxyz123456e1:q3:get1:t2:aa1:y1:qe",
		"d1:q13:announce_peer1:t2:aa1:y1:qe",
		"d1:q9:find_node1:t2:aa1:y1:qe",
		"d1:ad2:id20:abcdefghij0123456789e1:q4:vote1:t2:aa1:y1:qe",
		"d1:rd2:id20:abcdefghij0123456789e1:t2:aa1:y1:re",
		"d1:eli201e1:xe1:t2:aa1:y1:ee",
		"d1:y9:0000000001:02:001:y1:qe", // repeated key: found by this target, a false alarm of its first oracle
	} {
		f.Add([]byte(s), false)
		f.Add([]byte(s), true)
	}
	f.Fuzz(func(t *testing.T, data []byte, dual bool) {
		if len(data) > 2000 {
			return
		}
		sv := newSrv(SrvOpts{NodeID: [20]byte{0xc8}, PeerStore: true})
		defer sv.Close()
		src := &net.UDPAddr{IP: net.IP{84, 1, 2, 3}, Port: 8403}
		if dual {
			src.IP = src.IP.To16()
		}
		sv.C.Inject(src, data)
		if err := sv.C.Quiesce(barrierTimeout); err != nil {
			t.Skip(err.Error())
		}
		outs := outsFrom(sv.C, 0)
		if len(outs) > 1 {
			t.Fatalf("VIOLATION-CANDIDATE C08:multiple-datagrams: datagram %q caused %d datagrams", data, len(outs))
		}
		if len(outs) == 0 {
			return
		}
		o := outs[0]
		if o.To == nil || o.To.String() != src.String() {
			t.Fatalf("VIOLATION-CANDIDATE C08:wrong-destination: datagram %q from %v was answered to %v", data, src, o.To)
		}
		v, _, err := refmodel.Parse(data)
		if err != nil || v.Kind != 'd' {
			t.Fatalf("VIOLATION-CANDIDATE C08:reply-to-non-query: undecodable datagram %q was answered with %s", data, o.Describe())
		}
		// with repeated keys the library's decoder keeps the last one and this reader the first: the
		// datagram is a query if any of its `y` entries says so
		isQuery := false
		for _, kv := range v.D {
			if kv.K == "y" && kv.V.Kind == 's' && kv.V.S == "q" {
				isQuery = true
			}
		}
		if !isQuery {
			t.Fatalf("VIOLATION-CANDIDATE C08:reply-to-non-query: non-query %q was answered with %s", data, o.Describe())
		}
		// the last `t` key wins in the library's decoder when keys repeat; accept any `t` value present
		ok := false
		for _, kv := range v.D {
			if kv.K == "t" && kv.V.Kind == 's' && o.HasT && kv.V.S == o.T {
				ok = true
			}
		}
		if !ok && o.HasT {
			if _, has := v.Get("t"); has {
				t.Fatalf("VIOLATION-CANDIDATE C08:t-not-echoed: %q answered with t=%q", data, o.T)
			}
		}
	})
}
