package props

// C20b — a refunded token and a cancelled wait.
//
// When a socket write fails, the node hands the send's token back to its limiter. A send that waits
// for budget holds a reservation in the limiter, and gives it up when its context is cancelled. This
// sub-property places exactly that history - budget nearly used up, a rated send whose write is
// parked and then refused, 1..3 sends waiting for budget, the refusal, the cancellation - over a
// limiter that never refills, and then counts what a flood of pings is still answered with.

import (
	"context"
	"errors"
	"fmt"
	"net"
	"sync"
	"time"

	"golang.org/x/time/rate"
	"pgregory.net/rapid"

	dht "github.com/anacrolix/dht/v2"

	"verifharness/kit"
	"verifharness/simnet"
)

type C20bSc struct {
	Burst   int
	Waiters int // sends queued at the exhausted limiter when the refusal happens
	Refused int // rated sends whose socket write is refused (1..2)
	// Order: refuse-then-cancel | cancel-then-refuse
	Order string
}

func genC20b(t *rapid.T) C20bSc {
	sc := C20bSc{Burst: 2 + uniformInt(t, 6, "burst"), Waiters: uniformInt(t, 4, "waiters"), Refused: 1 + uniformInt(t, 2, "refused"), Order: pick(t, "order", "refuse-then-cancel", "refuse-then-cancel", "cancel-then-refuse")}
	if sc.Refused > sc.Burst-1 {
		sc.Refused = sc.Burst - 1
	}
	return sc
}

func runC20b(sc C20bSc, c *kit.Case) *kit.Violation {
	sv := newSrv(SrvOpts{NodeID: [20]byte{0xc2, 0x0b}, Limiter: rate.NewLimiter(1e-6, sc.Burst)})
	defer sv.Close()
	sender := [20]byte{0xf2}
	var mu sync.Mutex
	rated := 0 // rated datagrams that reached the wire
	parked := make(chan struct{}, 8)
	release := make(chan struct{})
	isRefused := func(to *net.UDPAddr) bool { return to != nil && to.IP.To4() != nil && to.IP.To4()[0] == 95 }
	sv.C.BeforeWrite = func(to *net.UDPAddr, data []byte) {
		if isRefused(to) {
			parked <- struct{}{}
			<-release
		}
	}
	sv.C.OnWrite = func(o simnet.Out) (bool, error) {
		if isRefused(o.To) {
			return false, errors.New("simulated socket write failure")
		}
		mu.Lock()
		rated++
		mu.Unlock()
		return false, nil
	}
	ping := func(i int, tag string) {
		src := &net.UDPAddr{IP: net.IP{94, 0, byte(i >> 8), byte(1 + i)}, Port: 9400 + i}
		sv.C.Inject(src, mkQuery([]byte(fmt.Sprintf("%s%d", tag, i)), "ping", mkArgs(sender)))
	}
	// 1. use up all but `Refused` tokens with answered pings
	for i := 0; i < sc.Burst-sc.Refused; i++ {
		ping(i, "a")
	}
	if !sv.barrier(c) {
		return nil
	}
	mu.Lock()
	first := rated
	mu.Unlock()
	if first != sc.Burst-sc.Refused {
		c.Inconclusive = fmt.Sprintf("set-up: %d of %d pings were answered", first, sc.Burst-sc.Refused)
		return nil
	}
	// 2. rated sends that take the remaining tokens and are parked inside the socket write
	refusedDone := make(chan dht.QueryResult, sc.Refused)
	for i := 0; i < sc.Refused; i++ {
		dest := &net.UDPAddr{IP: net.IP{95, 0, 0, byte(1 + i)}, Port: 9500 + i}
		simnet.Go(func() {
			refusedDone <- sv.S.Query(context.Background(), dht.NewAddr(dest), "ping", dht.QueryInput{NumTries: 1, RateLimiting: dht.QueryRateLimiting{NoWaitFirst: true}})
		})
	}
	for i := 0; i < sc.Refused; i++ {
		select {
		case <-parked:
		case <-time.After(10 * time.Second):
			close(release)
			c.Inconclusive = "a rated send did not reach the socket within 10 s"
			return nil
		}
	}
	// 3. sends that find the limiter empty and wait for budget
	ctxW, cancelW := context.WithCancel(context.Background())
	defer cancelW()
	waitDone := make(chan dht.QueryResult, sc.Waiters)
	for i := 0; i < sc.Waiters; i++ {
		dest := &net.UDPAddr{IP: net.IP{93, 0, 0, byte(1 + i)}, Port: 9300 + i}
		simnet.Go(func() { waitDone <- sv.S.Query(ctxW, dht.NewAddr(dest), "ping", dht.QueryInput{NumTries: 1}) })
	}
	if err := sv.C.Quiesce(barrierTimeout); err != nil {
		close(release)
		c.Inconclusive = err.Error()
		return nil
	}
	await := func(ch chan dht.QueryResult, n int, what string) bool {
		for i := 0; i < n; i++ {
			select {
			case <-ch:
			case <-time.After(10 * time.Second):
				c.Inconclusive = what + " did not return within 10 s"
				return false
			}
		}
		return true
	}
	// 4. the socket refuses the parked writes (their tokens are handed back); the waiting sends give up
	if sc.Order == "cancel-then-refuse" {
		cancelW()
		if !await(waitDone, sc.Waiters, "a cancelled waiting send") {
			close(release)
			return nil
		}
		close(release)
		if !await(refusedDone, sc.Refused, "a refused send") {
			return nil
		}
	} else {
		close(release)
		if !await(refusedDone, sc.Refused, "a refused send") {
			return nil
		}
		cancelW()
		if !await(waitDone, sc.Waiters, "a cancelled waiting send") {
			return nil
		}
	}
	if !sv.barrier(c) {
		return nil
	}
	// 5. what is the node still willing to send?
	for i := 0; i < sc.Burst+4; i++ {
		ping(100+i, "b")
	}
	if !sv.barrier(c) {
		return nil
	}
	mu.Lock()
	total := rated
	mu.Unlock()
	c.Label(fmt.Sprintf("waiters-%d", sc.Waiters))
	if sc.Waiters > 0 {
		c.NonTrivial()
	}
	if total > sc.Burst {
		key := "C20:send-budget-exceeded"
		if sc.Waiters > 0 && total-sc.Burst <= min(sc.Waiters, sc.Refused) && sc.Order == "refuse-then-cancel" {
			key = "C20:refund-then-cancelled-wait-overcredits"
		}
		return kit.Violatef(key, "limiter with burst %d and no refill: %d rated datagrams reached the wire (%d before, then %d sends refused by the socket while %d sends waited for budget, %s, then %d more answers)", sc.Burst, total, first, sc.Refused, sc.Waiters, sc.Order, total-first)
	}
	return nil
}

func init() {
	kit.Register("C20b",
		"rapid: a limiter with burst 2..7 that never refills; answered pings use all but 1..2 tokens; 1..2 rated queries take the rest and are parked inside the socket write; 0..3 further queries find the limiter empty and wait for budget; then the socket refuses the parked writes and the waiting queries are cancelled (either order); then a flood of burst+4 pings. Oracle: the number of rated datagrams that reached the wire (refused writes not counted) never exceeds the burst. Non-trivial: at least one send was waiting.",
		[]string{"a refused write is not a send: its token may or may not be handed back, either is within the property"},
		genC20b, runC20b)
}
