package props

// C18 — XOR metric, bucket index and closeness orders obey their laws.

import (
	"fmt"
	"net/netip"
	"sort"
	"testing"

	"github.com/anacrolix/generics"
	"pgregory.net/rapid"

	dht "github.com/anacrolix/dht/v2"
	"github.com/anacrolix/dht/v2/containers"
	"github.com/anacrolix/dht/v2/int160"
	k_nearest_nodes "github.com/anacrolix/dht/v2/k-nearest-nodes"
	"github.com/anacrolix/dht/v2/krpc"
	"github.com/anacrolix/dht/v2/types"

	"verifharness/kit"
	"verifharness/refmodel"
)

// ---- C18a: distance laws and bucket index --------------------------------------------------------

type C18aSc struct {
	A, B, C, T kit.Hex
	Bucket     int
}

func genC18a(t *rapid.T) C18aSc {
	root := genID(t, "t")
	return C18aSc{
		T: root[:], A: hexOf(genIDNear(t, root, "a")), B: hexOf(genIDNear(t, root, "b")), C: hexOf(genIDNear(t, root, "c")),
		Bucket: rapid.IntRange(0, 159).Draw(t, "bucket"),
	}
}

func hexOf(id [20]byte) kit.Hex { return kit.Hex(id[:]) }

func sign(i int) int {
	switch {
	case i < 0:
		return -1
	case i > 0:
		return 1
	}
	return 0
}

func runC18a(sc C18aSc, c *kit.Case) (v *kit.Violation) {
	defer guard("C18:panic-metric", &v, func() string { return fmt.Sprintf("%+v", sc) })
	a, b, t := arr20(sc.A), arr20(sc.B), arr20(sc.T)
	ia, ib, it := int160.FromByteArray(a), int160.FromByteArray(b), int160.FromByteArray(t)
	dab, dba := ia.Distance(ib), ib.Distance(ia)
	if dab != dba {
		return kit.Violatef("C18:distance-asymmetric", "d(%x,%x)=%v but reverse %v", a, b, dab, dba)
	}
	if int160.Distance(ia, ib) != dab {
		return kit.Violatef("C18:distance-func-differs", "int160.Distance and method disagree for %x,%x", a, b)
	}
	if dab.IsZero() != (a == b) {
		return kit.Violatef("C18:distance-zero", "d(%x,%x) zero=%v", a, b, dab.IsZero())
	}
	if got, want := dab.AsByteArray(), refmodel.Xor(a, b); got != want {
		return kit.Violatef("C18:distance-value", "d(%x,%x) = %x, want %x", a, b, got, want)
	}
	// the exported in-place form, with the destination being a fresh value, the first operand, the second
	// operand, or both
	want := refmodel.Xor(a, b)
	{
		var d int160.T
		x, y := ia, ib
		d.Xor(&x, &y)
		if d.AsByteArray() != want {
			return kit.Violatef("C18:distance-value", "d.Xor(&x,&y) with x=%x y=%x gave %x, want %x", a, b, d.AsByteArray(), want)
		}
		x, y = ia, ib
		x.Xor(&x, &y)
		if x.AsByteArray() != want {
			return kit.Violatef("C18:distance-value", "x.Xor(&x,&y) (destination is the first operand) with x=%x y=%x gave %x, want %x", a, b, x.AsByteArray(), want)
		}
		x, y = ia, ib
		y.Xor(&x, &y)
		if y.AsByteArray() != want {
			return kit.Violatef("C18:distance-value", "y.Xor(&x,&y) (destination is the second operand) with x=%x y=%x gave %x, want %x", a, b, y.AsByteArray(), want)
		}
		x = ia
		x.Xor(&x, &x)
		if !x.IsZero() {
			return kit.Violatef("C18:distance-zero", "x.Xor(&x,&x) with x=%x gave %x", a, x.AsByteArray())
		}
		// the accessors agree with each other
		if got := int160.FromBytes(ia.Bytes()); got != ia {
			return kit.Violatef("C18:distance-value", "FromBytes(Bytes(%x)) = %x", a, got.AsByteArray())
		}
		if got := int160.FromByteString(ia.ByteString()); got != ia {
			return kit.Violatef("C18:distance-value", "FromByteString(ByteString(%x)) = %x", a, got.AsByteArray())
		}
		for _, bit := range []int{0, 1, 7, 8, 79, 80, 158, 159} {
			if got, wantBit := ia.GetBit(bit), a[bit/8]>>(7-uint(bit%8))&1 == 1; got != wantBit {
				return kit.Violatef("C18:distance-value", "GetBit(%d) of %x = %v", bit, a, got)
			}
		}
	}
	dat, dbt := ia.Distance(it), ib.Distance(it)
	if got, want := sign(dat.Cmp(dbt)), refmodel.DistCmp(a, b, t); got != want {
		return kit.Violatef("C18:cmp-not-unsigned-order", "Cmp(d(%x,t), d(%x,t)) = %d, big.Int says %d (t=%x)", a, b, got, want, t)
	}
	if dat.Cmp(dbt) == 0 || refmodel.CommonPrefixLen(a, b) >= 8 {
		c.NonTrivial()
	}
	// BitLen agrees with big.Int
	if got, want := dab.BitLen(), refmodel.Big(refmodel.Xor(a, b)).BitLen(); got != want {
		return kit.Violatef("C18:bitlen", "BitLen(%x) = %d want %d", dab.AsByteArray(), got, want)
	}
	// bucket index = shared prefix length with the root
	if a != t {
		if got, want := dht.VerifBucketIndex(t, a), refmodel.CommonPrefixLen(t, a); got != want {
			return kit.Violatef("C18:bucket-index", "bucket index of %x under root %x = %d, shared prefix length is %d", a, t, got, want)
		}
	}
	// a random ID drawn for a bucket lands in it
	rid := dht.VerifRandomIDInBucket(t, sc.Bucket)
	if got := refmodel.CommonPrefixLen(t, rid); got != sc.Bucket {
		return kit.Violatef("C18:random-id-wrong-bucket", "random ID %x for bucket %d of root %x shares %d bits", rid, sc.Bucket, t, got)
	}
	c.Label(fmt.Sprintf("cpl-%d", refmodel.CommonPrefixLen(a, t)/20*20))
	return nil
}

// TestC18Exhaustive: all 160 shared-prefix lengths x all 160 buckets.
func TestC18Exhaustive(t *testing.T) {
	var evals int64
	var digests []uint64
	var samples []any
	roots := [][20]byte{{}, {0xff, 0xff, 0xff, 0xff, 0xff, 0xff, 0xff, 0xff, 0xff, 0xff, 0xff, 0xff, 0xff, 0xff, 0xff, 0xff, 0xff, 0xff, 0xff, 0xff}, {0xa5, 0x5a, 1, 2, 3, 4, 5, 6, 7, 8, 9, 10, 11, 12, 13, 14, 15, 16, 17, 0x81}}
	tails := [][20]byte{{}, {0xff, 0xff, 0xff, 0xff, 0xff, 0xff, 0xff, 0xff, 0xff, 0xff, 0xff, 0xff, 0xff, 0xff, 0xff, 0xff, 0xff, 0xff, 0xff, 0xff}, {0x12, 0x34, 0x56, 0x78, 0x9a, 0xbc, 0xde, 0xf0, 1, 2, 3, 4, 5, 6, 7, 8, 9, 10, 11, 12}}
	for ri, root := range roots {
		for n := 0; n < 160; n++ {
			for ti, tail := range tails {
				id := refmodel.WithPrefix(root, n, tail)
				evals++
				if got := dht.VerifBucketIndex(root, id); got != n {
					t.Fatalf("VIOLATION-CANDIDATE C18:bucket-index: bucket index of %x under root %x = %d, shared prefix length is %d", id, root, got, n)
				}
				digests = append(digests, uint64(ri)<<20|uint64(n)<<4|uint64(ti))
			}
			for rep := 0; rep < 20; rep++ {
				rid := dht.VerifRandomIDInBucket(root, n)
				evals++
				if got := refmodel.CommonPrefixLen(root, rid); got != n {
					t.Fatalf("VIOLATION-CANDIDATE C18:random-id-wrong-bucket: random ID %x for bucket %d of root %x shares %d bits", rid, n, root, got)
				}
			}
		}
	}
	samples = append(samples, map[string]any{"root": fmt.Sprintf("%x", roots[2]), "prefix_len": 79, "id": fmt.Sprintf("%x", refmodel.WithPrefix(roots[2], 79, tails[2]))})
	kit.Count("C18x", "enumeration: 3 roots x all 160 shared-prefix lengths x 3 tails for the bucket index, and 20 random bucket IDs for each of the 160 buckets of each root", evals, digests, samples)
	kit.Extra("exhaustive", true)
}

// ---- C18b: CloserThan is a strict total order; sorted frontier container -------------------------

type AmiSpec struct {
	ID   kit.Hex // empty = unknown
	IP   kit.Hex
	Port int
}

func (a AmiSpec) build() types.AddrMaybeId {
	addr, _ := netip.AddrFromSlice(a.IP)
	r := types.AddrMaybeId{Addr: krpc.NodeAddrPort{AddrPort: netip.AddrPortFrom(addr, uint16(a.Port))}}
	if len(a.ID) == 20 {
		r.Id = generics.Some(int160.FromByteArray(arr20(a.ID)))
	}
	return r
}

func (a AmiSpec) key() string { return fmt.Sprintf("%x|%x|%d", []byte(a.ID), []byte(a.IP), a.Port) }

func genAmi(t *rapid.T, target [20]byte, pool []AmiSpec, label string) AmiSpec {
	if len(pool) > 0 {
		switch rapid.IntRange(0, 5).Draw(t, label+".reuse") {
		case 0: // exact duplicate
			return pool[rapid.IntRange(0, len(pool)-1).Draw(t, label+".dup")]
		case 1: // same ID, other address => distance tie
			p := pool[rapid.IntRange(0, len(pool)-1).Draw(t, label+".sameid")]
			return AmiSpec{ID: p.ID, IP: kit.Hex(genIPv4(t, label+".ip")), Port: genPort(t, label+".port")}
		case 2: // same address, other ID / no ID
			p := pool[rapid.IntRange(0, len(pool)-1).Draw(t, label+".sameaddr")]
			a := AmiSpec{IP: p.IP, Port: p.Port}
			if rapid.Bool().Draw(t, label+".hasid") {
				a.ID = hexOf(genIDNear(t, target, label+".id"))
			}
			return a
		case 3: // same IP other port
			p := pool[rapid.IntRange(0, len(pool)-1).Draw(t, label+".sameip")]
			return AmiSpec{ID: p.ID, IP: p.IP, Port: genPort(t, label+".port")}
		}
	}
	a := AmiSpec{Port: genPort(t, label+".port")}
	if rapid.Bool().Draw(t, label+".v6") {
		a.IP = kit.Hex(genIPv6(t, label+".ip6"))
	} else {
		a.IP = kit.Hex(genIPv4(t, label+".ip4"))
	}
	if rapid.IntRange(0, 3).Draw(t, label+".hasid") > 0 {
		a.ID = hexOf(genIDNear(t, target, label+".id"))
	}
	return a
}

type C18bSc struct {
	Target kit.Hex
	Elems  []AmiSpec
	// container ops: positive = add Elems[i-1], negative = delete Elems[-i-1]
	Ops []int
}

func genC18b(t *rapid.T) C18bSc {
	target := genID(t, "target")
	sc := C18bSc{Target: target[:]}
	n := rapid.IntRange(3, 12).Draw(t, "n")
	for i := 0; i < n; i++ {
		sc.Elems = append(sc.Elems, genAmi(t, target, sc.Elems, "e"))
	}
	for i, m := 0, rapid.IntRange(0, 30).Draw(t, "nops"); i < m; i++ {
		k := rapid.IntRange(1, n).Draw(t, "op.elem")
		if rapid.IntRange(0, 3).Draw(t, "op.del") == 0 {
			k = -k
		}
		sc.Ops = append(sc.Ops, k)
	}
	return sc
}

func runC18b(sc C18bSc, c *kit.Case) (v *kit.Violation) {
	defer guard("C18:panic-order", &v, func() string { return fmt.Sprintf("%+v", sc) })
	target := arr20(sc.Target)
	t160 := int160.FromByteArray(target)
	es := make([]types.AddrMaybeId, len(sc.Elems))
	for i, e := range sc.Elems {
		es[i] = e.build()
	}
	hasTie := false
	lt := func(i, j int) bool { return es[i].CloserThan(es[j], t160) }
	for i := range es {
		if lt(i, i) {
			return kit.Violatef("C18:closer-reflexive", "%v is closer than itself", es[i])
		}
		for j := range es {
			same := sc.Elems[i].key() == sc.Elems[j].key()
			if lt(i, j) && lt(j, i) {
				return kit.Violatef("C18:closer-symmetric", "%v and %v are each closer than the other (target %x)", es[i], es[j], target)
			}
			if !same && !lt(i, j) && !lt(j, i) {
				return kit.Violatef("C18:closer-not-total", "distinct elements %v and %v are unordered (target %x)", es[i], es[j], target)
			}
			if same && (lt(i, j) || lt(j, i)) {
				return kit.Violatef("C18:closer-equal-ordered", "equal elements %v ordered", es[i])
			}
			ei, ej := sc.Elems[i], sc.Elems[j]
			if len(ei.ID) == 20 && len(ej.ID) != 20 && !lt(i, j) {
				return kit.Violatef("C18:known-not-before-unknown", "%v (known ID) is not closer than %v (unknown ID)", es[i], es[j])
			}
			if len(ei.ID) == 20 && len(ej.ID) == 20 {
				d := refmodel.DistCmp(arr20(ei.ID), arr20(ej.ID), target)
				if d < 0 && !lt(i, j) {
					return kit.Violatef("C18:closer-ignores-distance", "%v is strictly nearer to %x than %v but not CloserThan", es[i], target, es[j])
				}
				if d == 0 && !same {
					hasTie = true
				}
			}
			for k := range es {
				if lt(i, j) && lt(j, k) && !lt(i, k) {
					return kit.Violatef("C18:closer-not-transitive", "%v < %v < %v but not %v < %v (target %x)", es[i], es[j], es[k], es[i], es[k], target)
				}
			}
		}
	}
	hasUnknown := false
	for _, e := range sc.Elems {
		if len(e.ID) != 20 {
			hasUnknown = true
		}
	}
	if hasTie || hasUnknown {
		c.NonTrivial()
	}
	if hasTie {
		c.Label("distance-tie")
	}
	if hasUnknown {
		c.Label("unknown-id")
	}
	// the sorted frontier container behaves as a set ordered by CloserThan
	set := containers.NewImmutableAddrMaybeIdsByDistance(t160)
	model := map[string]int{} // key -> index
	for _, op := range sc.Ops {
		if op > 0 {
			set = set.Add(es[op-1])
			model[sc.Elems[op-1].key()] = op - 1
		} else {
			set = set.Delete(es[-op-1])
			delete(model, sc.Elems[-op-1].key())
		}
		if set.Len() != len(model) {
			return kit.Violatef("C18:frontier-len", "frontier has %d elements, model %d", set.Len(), len(model))
		}
		if len(model) > 0 {
			next := set.Next()
			for _, idx := range model {
				if es[idx].CloserThan(next, t160) {
					return kit.Violatef("C18:frontier-next-not-closest", "Next() = %v but %v is closer", next, es[idx])
				}
			}
			found := false
			for k := range model {
				if es[model[k]] == next {
					found = true
				}
			}
			if !found {
				return kit.Violatef("C18:frontier-next-foreign", "Next() = %v is not in the set", next)
			}
		}
	}
	// draining yields CloserThan order
	var drained []types.AddrMaybeId
	for set.Len() > 0 {
		n := set.Next()
		drained = append(drained, n)
		set = set.Delete(n)
	}
	if len(drained) != len(model) {
		return kit.Violatef("C18:frontier-drain", "drained %d elements, model %d", len(drained), len(model))
	}
	for i := 1; i < len(drained); i++ {
		if !drained[i-1].CloserThan(drained[i], t160) {
			return kit.Violatef("C18:frontier-order", "drain order violates CloserThan at %d: %v then %v", i, drained[i-1], drained[i])
		}
	}
	return nil
}

// ---- C18c: K-nearest container ------------------------------------------------------------------

type C18Fork struct {
	// From: the fork starts from the value the main sequence had after this many pushes (mod length+1)
	From   int
	Pushes []AmiSpec
}

type C18cSc struct {
	Target kit.Hex
	K      int
	Pushes []AmiSpec // all with IDs
	// Forks: further push sequences that start from an earlier value of the main sequence. Push returns a
	// new container value; the values it was derived from keep what was pushed into them.
	Forks []C18Fork
}

func genC18c(t *rapid.T) C18cSc {
	target := genID(t, "target")
	sc := C18cSc{Target: target[:], K: rapid.IntRange(1, 16).Draw(t, "k")}
	n := rapid.IntRange(0, 64).Draw(t, "n")
	pushSpec := func(label string) AmiSpec {
		a := genAmi(t, target, sc.Pushes, label)
		if len(a.ID) != 20 {
			a.ID = hexOf(genIDNear(t, target, label+".id"))
		}
		return a
	}
	for i := 0; i < n; i++ {
		sc.Pushes = append(sc.Pushes, pushSpec("p"))
	}
	for i, nf := 0, uniformInt(t, 4, "nforks"); i < nf; i++ {
		f := C18Fork{From: uniformInt(t, 65, "f.from")}
		for j, m := 0, 1+uniformInt(t, 12, "f.n"); j < m; j++ {
			f.Pushes = append(f.Pushes, pushSpec("f.p"))
		}
		sc.Forks = append(sc.Forks, f)
	}
	return sc
}

type c18pushed struct {
	id  [20]byte
	key string
}

// checkKNearest: the container value kn holds exactly the K nearest of `distinct`, in order.
func checkKNearest(kn k_nearest_nodes.Type, distinct map[string]c18pushed, K int, target [20]byte, what string) *kit.Violation {
	wantLen := len(distinct)
	if wantLen > K {
		wantLen = K
	}
	if kn.Len() != wantLen {
		return kit.Violatef("C18:knearest-len", "%s (%d distinct pushed) with K=%d the container holds %d", what, len(distinct), K, kn.Len())
	}
	if kn.Full() != (kn.Len() >= K) {
		return kit.Violatef("C18:knearest-full", "%s: Full()=%v with %d/%d", what, kn.Full(), kn.Len(), K)
	}
	var got [][20]byte
	var gotKeys []string
	kn.Range(func(e k_nearest_nodes.Elem) {
		got = append(got, e.ID)
		gotKeys = append(gotKeys, fmt.Sprintf("%x|%x|%d", e.ID[:], e.Addr.Addr().AsSlice(), e.Addr.Port()))
	})
	if len(got) != kn.Len() {
		return kit.Violatef("C18:knearest-len", "%s: Len()=%d but Range visits %d elements", what, kn.Len(), len(got))
	}
	for j := 1; j < len(got); j++ {
		if refmodel.DistCmp(got[j-1], got[j], target) > 0 {
			return kit.Violatef("C18:knearest-order", "%s: Range is not in non-decreasing distance order at %d", what, j)
		}
	}
	for _, k := range gotKeys {
		if _, ok := distinct[k]; !ok {
			return kit.Violatef("C18:knearest-foreign", "%s: the container holds %s, which was never pushed into it", what, k)
		}
	}
	// distance multiset equals the K smallest of those pushed
	var all [][20]byte
	for _, d := range distinct {
		all = append(all, d.id)
	}
	sort.Slice(all, func(a, b int) bool { return refmodel.DistCmp(all[a], all[b], target) < 0 })
	for j := range got {
		if refmodel.DistCmp(got[j], all[j], target) != 0 {
			return kit.Violatef("C18:knearest-not-k-nearest", "%s: element %d of the container is at distance %x, the %d-th nearest pushed is at %x (K=%d, %d distinct pushed)", what, j, refmodel.Xor(got[j], target), j, refmodel.Xor(all[j], target), K, len(all))
		}
	}
	if kn.Len() > 0 {
		f := kn.Farthest()
		if refmodel.DistCmp(f.ID, got[len(got)-1], target) != 0 {
			return kit.Violatef("C18:knearest-farthest", "%s: Farthest() is not the maximum", what)
		}
	}
	return nil
}

func runC18c(sc C18cSc, c *kit.Case) (v *kit.Violation) {
	defer guard("C18:panic-knearest", &v, func() string { return fmt.Sprintf("%+v", sc) })
	target := arr20(sc.Target)
	kn := k_nearest_nodes.New(int160.FromByteArray(target), sc.K)
	if len(sc.Pushes) > sc.K {
		c.NonTrivial()
	}
	elem := func(p AmiSpec, data int) k_nearest_nodes.Elem {
		addr, _ := netip.AddrFromSlice(p.IP)
		return k_nearest_nodes.Elem{Key: krpc.NodeInfoAddrPort{ID: arr20(p.ID), Addr: krpc.NodeAddrPort{AddrPort: netip.AddrPortFrom(addr, uint16(p.Port))}}, Data: data}
	}
	clone := func(m map[string]c18pushed) map[string]c18pushed {
		r := make(map[string]c18pushed, len(m)+1)
		for k, v := range m {
			r[k] = v
		}
		return r
	}
	// every value the main sequence went through, with what had been pushed into it
	type snap struct {
		kn       k_nearest_nodes.Type
		distinct map[string]c18pushed
	}
	distinct := map[string]c18pushed{}
	snaps := []snap{{kn, clone(distinct)}}
	for i, p := range sc.Pushes {
		kn = kn.Push(elem(p, i))
		distinct[p.key()] = c18pushed{arr20(p.ID), p.key()}
		if v := checkKNearest(kn, distinct, sc.K, target, fmt.Sprintf("after %d pushes", i+1)); v != nil {
			return v
		}
		snaps = append(snaps, snap{kn, clone(distinct)})
	}
	recheck := func(when string) *kit.Violation {
		for i, s := range snaps {
			if v := checkKNearest(s.kn, s.distinct, sc.K, target, fmt.Sprintf("%s, the value obtained after %d of %d pushes", when, i, len(sc.Pushes))); v != nil {
				return v
			}
		}
		return nil
	}
	if v := recheck("after the whole sequence"); v != nil {
		return v
	}
	for fi, f := range sc.Forks {
		from := f.From % len(snaps)
		fk, fd := snaps[from].kn, clone(snaps[from].distinct)
		for j, p := range f.Pushes {
			fk = fk.Push(elem(p, 1000*fi+j))
			fd[p.key()] = c18pushed{arr20(p.ID), p.key()}
			if v := checkKNearest(fk, fd, sc.K, target, fmt.Sprintf("fork %d from the value after %d pushes, after %d pushes of its own", fi, from, j+1)); v != nil {
				return v
			}
		}
		if v := recheck(fmt.Sprintf("after fork %d (from the value after %d pushes) pushed %d elements", fi, from, len(f.Pushes))); v != nil {
			return v
		}
		c.Label("forked")
	}
	return nil
}

func init() {
	kit.Register("C18a",
		"rapid: ID triples structured around a root (all shared-prefix lengths, equal, zero, ones): Distance symmetric, zero iff equal, equals bytewise XOR, Cmp == big.Int order, BitLen == big.Int, bucket index == shared prefix length, random bucket ID lands in its bucket. Non-trivial: equal distances or >= 8 shared bits.",
		nil, genC18a, runC18a)
	kit.Register("C18b",
		"rapid: 3..12 lookup candidates (with/without ID, duplicate IDs at other addresses, same IP other port, exact duplicates): CloserThan irreflexive, asymmetric, transitive (all triples), total on distinct elements, known before unknown, consistent with XOR distance; the sorted frontier container under add/delete sequences agrees with a set model and drains in CloserThan order. Non-trivial: a distance tie or an ID-less element.",
		nil, genC18b, runC18b)
	kit.Register("C18c",
		"rapid: push sequences of 0..64 elements (duplicates, distance ties) into the K-nearest container, K 1..16: after every push it holds min(K, distinct) elements, all pushed, whose distances are the K smallest, in non-decreasing order, Farthest is the maximum. Push returns a new container value: every value of the sequence is kept and re-checked at the end against what had been pushed into it, and 0..3 forks push 1..12 further elements starting from an earlier value (each fork checked after every push, all earlier values re-checked after every fork). Non-trivial: more pushes than K.",
		[]string{"elements at equal distance are interchangeable (the container breaks ties by a randomly seeded hash)"},
		genC18c, runC18c)
}
