package props

// C14 (rate-limited cells) — a query whose next send is waiting for send budget must still end when
// its reply arrives or its context is cancelled, and must not get in the way of anything else.

import (
	"context"
	"errors"
	"fmt"
	"net"
	"sync"
	"time"

	"golang.org/x/time/rate"

	dht "github.com/anacrolix/dht/v2"

	"verifharness/kit"
	"verifharness/simnet"
)

func runC14RL(sc C14Sc, c *kit.Case) *kit.Violation {
	burst := sc.At - 1
	// one token per hour: what the burst does not cover never becomes available within a case
	sv := newSrv(SrvOpts{NodeID: [20]byte{0xc1, 0x4b}, Limiter: rate.NewLimiter(rate.Every(time.Hour), burst)})
	defer sv.Close()
	if !sv.barrier(c) {
		return nil
	}
	base := sv.C.Census()
	dest := &net.UDPAddr{IP: net.IP{61, 1, 1, 1}, Port: 6111}
	dest2 := &net.UDPAddr{IP: net.IP{61, 1, 1, 2}, Port: 6112}
	destID, dest2ID := [20]byte{0xd1}, [20]byte{0xd2}
	var mu sync.Mutex
	writes := 0
	tOnWire := ""
	sv.C.OnWrite = func(o simnet.Out) (bool, error) {
		m := parseOut(o)
		if m.Y != "q" {
			return false, nil
		}
		if o.To.String() == dest2.String() {
			sv.C.Inject(dest2, mkResponse([]byte(m.T), stdReturn(dest2ID, nil, nil)))
			return true, nil
		}
		mu.Lock()
		writes++
		tOnWire = m.T
		mu.Unlock()
		return false, nil // unanswered: the (virtual) resend interval elapses at once and the next send is due
	}
	what := fmt.Sprintf("query NumTries=%d over a limiter with burst %d and no refill, wait-on-retries=%v no-wait-first=%v, then %s", sc.NumTries, burst, sc.RLWaitRetries, sc.RLNoWaitFirst, sc.Fault)
	ctx, cancel := context.WithCancel(context.Background())
	defer cancel()
	done := make(chan dht.QueryResult, 1)
	simnet.Go(func() {
		done <- sv.S.Query(ctx, dht.NewAddr(dest), "ping", dht.QueryInput{NumTries: sc.NumTries, RateLimiting: dht.QueryRateLimiting{WaitOnRetries: sc.RLWaitRetries, NoWaitFirst: sc.RLNoWaitFirst}})
	})
	await := func(what2 string) (dht.QueryResult, bool, *kit.Violation) {
		select {
		case r := <-done:
			return r, true, nil
		case <-time.After(20 * time.Second):
		}
		if ok, who := sv.C.AllBlocked(); !ok {
			c.Inconclusive = "query still running after 20 s with runnable goroutines: " + who
			return dht.QueryResult{}, false, nil
		}
		return dht.QueryResult{}, false, kit.Violatef("C14:query-never-returned", "%s: %s, and the query has not returned although every module goroutine is blocked", what, what2)
	}
	// let it run until it has returned or is waiting for budget
	if err := sv.C.Quiesce(barrierTimeout); err != nil {
		c.Inconclusive = err.Error()
		return nil
	}
	var res dht.QueryResult
	waiting := true
	select {
	case res = <-done:
		waiting = false
	default:
	}
	mu.Lock()
	w, t := writes, tOnWire
	mu.Unlock()
	if w > sc.NumTries {
		return kit.Violatef("C14:too-many-datagrams", "%s: %d datagrams, more than NumTries", what, w)
	}
	if waiting {
		c.Label("query-waiting-for-send-budget")
		c.NonTrivial()
		fault := sc.Fault
		if fault == "reply-while-waiting" && t == "" {
			fault = "cancel-while-waiting" // nothing was sent yet: there is nothing to reply to
		}
		switch fault {
		case "reply-while-waiting":
			sv.C.Inject(dest, mkResponse([]byte(t), stdReturn(destID, nil, nil)))
			r, ok, v := await("its reply was delivered while its next send waited for budget")
			if !ok {
				return v
			}
			if r.Err != nil || replyMarker(r) != string(destID[:]) {
				return kit.Violatef("C14:wrong-outcome", "%s: the reply was delivered while the next send waited for budget, the query returned err=%v", what, r.Err)
			}
		case "other-query-while-waiting", "stats-while-waiting":
			if fault == "stats-while-waiting" {
				if _, v, ok := sv.stats(c, "C14", what); !ok {
					return v
				}
			} else {
				ctx2, cancel2 := context.WithCancel(context.Background())
				done2 := make(chan dht.QueryResult, 1)
				simnet.Go(func() {
					done2 <- sv.S.Query(ctx2, dht.NewAddr(dest2), "ping", dht.QueryInput{NumTries: 1, RateLimiting: dht.QueryRateLimiting{NotAny: true}})
				})
				select {
				case r2 := <-done2:
					cancel2()
					if r2.Err != nil || replyMarker(r2) != string(dest2ID[:]) {
						return kit.Violatef("C14:wrong-outcome", "%s: a second query, exempt from rate limiting and answered at once, returned err=%v", what, r2.Err)
					}
				case <-time.After(20 * time.Second):
					cancel2()
					if ok, who := sv.C.AllBlocked(); !ok {
						c.Inconclusive = "second query still running after 20 s with runnable goroutines: " + who
						return nil
					}
					return kit.Violatef("C14:query-never-returned", "%s: a second query, exempt from rate limiting and answered at once, has not returned although every module goroutine is blocked", what)
				}
			}
			fallthrough
		default: // cancel-while-waiting
			cancel()
			r, ok, v := await("its context was cancelled while its next send waited for budget")
			if !ok {
				return v
			}
			if !errors.Is(r.Err, context.Canceled) {
				return kit.Violatef("C14:wrong-outcome", "%s: cancelled while waiting for budget, the query returned err=%v (reply %v)", what, r.Err, r.Reply.R != nil)
			}
		}
	} else {
		c.Label("query-ended-without-waiting")
		if res.Err == nil {
			return kit.Violatef("C14:wrong-outcome", "%s: nobody answered, yet the query returned a reply", what)
		}
	}
	return c14Cleanup(sv, c, base, false, what)
}
