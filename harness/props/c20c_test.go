package props

// C20c — sends that overtake each other inside the send path.
//
// Between entering the send path and asking the limiter for budget a send passes the node's lock and
// the user-supplied blocklist's Lookup, where it can be held up for any length of time while later
// sends go by. The budget must hold for every such interleaving. This sub-property makes the blocklist
// slow for every other destination and launches a steady stream of rated, non-waiting queries, so that
// slow and fast sends keep reaching the limiter out of order.

import (
	"context"
	"fmt"
	"net"
	"sort"
	"sync"
	"time"

	"github.com/anacrolix/torrent/iplist"
	"golang.org/x/time/rate"
	"pgregory.net/rapid"

	dht "github.com/anacrolix/dht/v2"

	"verifharness/kit"
	"verifharness/simnet"
)

type C20cSc struct {
	Rate    int // tokens per second
	Burst   int
	StallMs int // how long the blocklist lookup takes for a slow destination
	Sends   int
	// SlowEvery: every n-th send goes to a slow destination
	SlowEvery int
}

func genC20c(t *rapid.T) C20cSc {
	return C20cSc{Rate: pick(t, "rate", 20, 50, 100), Burst: pick(t, "burst", 1, 3, 8), StallMs: pick(t, "stall", 15, 30, 60),
		Sends: 60 + uniformInt(t, 90, "sends"), SlowEvery: 2 + uniformInt(t, 3, "slowevery")}
}

// stallRanger covers nothing; looking up an address whose last byte is odd takes a while.
type stallRanger struct{ d time.Duration }

func (r stallRanger) Lookup(ip net.IP) (iplist.Range, bool) {
	if len(ip) > 0 && ip[len(ip)-1]%2 == 1 {
		time.Sleep(r.d)
	}
	return iplist.Range{}, false
}
func (r stallRanger) NumRanges() int { return 0 }

func runC20c(sc C20cSc, c *kit.Case) *kit.Violation {
	r := float64(sc.Rate)
	t0 := time.Now()
	lim := rate.NewLimiter(rate.Limit(r), sc.Burst)
	sv := newSrv(SrvOpts{NodeID: [20]byte{0xc2, 0x0c}, Limiter: lim, Blocklist: stallRanger{time.Duration(sc.StallMs) * time.Millisecond}})
	defer sv.Close()
	var mu sync.Mutex
	var at []time.Time
	sv.C.OnWrite = func(o simnet.Out) (bool, error) {
		mu.Lock()
		at = append(at, o.At)
		mu.Unlock()
		return false, nil // nobody answers: every query ends by its (virtual) time-out at once
	}
	var wg sync.WaitGroup
	for i := 0; i < sc.Sends; i++ {
		last := byte(2 * (1 + i%100)) // even: the lookup is fast
		if i%sc.SlowEvery == 0 {
			last++ // odd: this send is held up inside the send path
		}
		dest := &net.UDPAddr{IP: net.IP{92, 0, byte(i >> 8), last}, Port: 9200 + i%1000}
		wg.Add(1)
		simnet.Go(func() {
			defer wg.Done()
			sv.S.Query(context.Background(), dht.NewAddr(dest), "ping", dht.QueryInput{NumTries: 1, RateLimiting: dht.QueryRateLimiting{NoWaitFirst: true}})
		})
		time.Sleep(4 * time.Millisecond)
	}
	done := make(chan struct{})
	go func() { wg.Wait(); close(done) }()
	select {
	case <-done:
	case <-time.After(30 * time.Second):
		if ok, who := sv.C.AllBlocked(); !ok {
			c.Inconclusive = "queries still running after 30 s with runnable goroutines: " + who
			return nil
		}
		return kit.Violatef("C20:operation-hung", "non-waiting queries did not return although every module goroutine is blocked")
	}
	mu.Lock()
	defer mu.Unlock()
	sort.Slice(at, func(i, j int) bool { return at[i].Before(at[j]) })
	c.Label(fmt.Sprintf("rated-writes-%d", bucketCount(len(at))))
	if sc.Sends >= 2*(sc.Burst+1) {
		c.NonTrivial()
	}
	for k, w := range at {
		allowed := float64(sc.Burst) + r*w.Sub(t0).Seconds() + 1e-6
		// same tolerance as C20a: +1 for float rounding, rate x 20 ms for the limiter library's own slack under preemption
		if float64(k+1) > allowed+1+r*0.02 {
			return kit.Violatef("C20:send-budget-exceeded", "with every %d-th send held up for %d ms between entering the send path and reaching the limiter: rated datagram #%d was written %.6f s after the limiter (rate %d/s, burst %d) was created; the budget allows at most %.3f by then", sc.SlowEvery, sc.StallMs, k+1, w.Sub(t0).Seconds(), sc.Rate, sc.Burst, allowed)
		}
	}
	return nil
}

func init() {
	kit.Register("C20c",
		"rapid: a limiter (20 / 50 / 100 per second, burst 1 / 3 / 8) and a user-supplied blocklist that covers nothing but takes 15 / 30 / 60 ms to look up every other destination; 60..150 rated, non-waiting queries are launched 4 ms apart, every 2nd..4th of them to a slow destination, so that sends held up between entering the send path and reaching the limiter are overtaken by later ones all the time. Oracle: the prefix bound of C20a (k-th rated datagram no earlier than burst + rate x elapsed since the limiter's creation allows, same tolerance). Non-trivial: the offered load is at least twice the burst.",
		[]string{"only outbound queries are used: the lookup of an inbound datagram's source would stall the serve loop instead of the send path"},
		genC20c, runC20c)
}
