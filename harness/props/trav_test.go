package props

// Traversal schedule explorer shared by C02, C03 and C04: the lookup's network is a callback, so the
// harness owns which in-flight query completes next, when AddNodes and Stop happen, and what every
// contact answers.

import (
	"context"
	"fmt"
	"net/netip"
	"sort"
	"sync"
	"time"

	"github.com/anacrolix/generics"
	"pgregory.net/rapid"

	"github.com/anacrolix/dht/v2/int160"
	k_nearest_nodes "github.com/anacrolix/dht/v2/k-nearest-nodes"
	"github.com/anacrolix/dht/v2/krpc"
	"github.com/anacrolix/dht/v2/traversal"
	"github.com/anacrolix/dht/v2/types"

	"verifharness/kit"
	"verifharness/refmodel"
	"verifharness/simnet"
)

type TAddr struct {
	IP        kit.Hex
	Port      int
	Behaviour string // answer | silent
	RespID    kit.Hex
	Data      string // string | nonstring | none
	Nodes     []int  // indices into Listings
	Nodes6    []int
	Rejected  bool // node filter rejects this address
}

type TListing struct {
	Addr int
	ID   kit.Hex
}

type TSeed struct {
	Listing int
	WithID  bool
}

type TEvent struct {
	Kind  string // complete | addnodes | stop | drain
	Pick  int
	Batch []TSeed
	// Single: the batch is handed over contact by contact through AddNode instead of in one AddNodes call
	Single bool
}

type TravSc struct {
	Family     string // general | truthful
	Target     kit.Hex
	K, Alpha   int
	Addrs      []TAddr
	Listings   []TListing
	RejectIDs  []kit.Hex
	DataFilter string // all | string
	Seeds      []TSeed
	Events     []TEvent
}

func (a TAddr) addrPort() netip.AddrPort {
	ip, _ := netip.AddrFromSlice(a.IP)
	return netip.AddrPortFrom(ip, uint16(a.Port))
}

func (a TAddr) key() string { return a.addrPort().String() }

// ---- generator -----------------------------------------------------------------------------------

// genTravChain: a long lookup. A chain of nodes, each closer to the target than the one before and
// each naming its successor somewhere among 3..16 far contacts that never enter the result set, so
// that the backlog of learned-but-unasked contacts grows with every step while the interesting contact
// of each reply is a single entry named exactly once.
func genTravChain(t *rapid.T) TravSc {
	target := genRandID(t, "target")
	sc := TravSc{Family: "general", Target: target[:], K: 1 + uniformInt(t, 12, "k"), Alpha: 1 + uniformInt(t, 4, "alpha"), DataFilter: "all"}
	m := sc.K + 4 + uniformInt(t, 40, "chain.len")
	pad := 3 + uniformInt(t, 14, "chain.pad")
	addAddr := func(ip kit.Hex, id [20]byte, beh string) int {
		sc.Addrs = append(sc.Addrs, TAddr{IP: ip, Port: 1, Behaviour: beh, RespID: id[:], Data: "string"})
		sc.Listings = append(sc.Listings, TListing{Addr: len(sc.Addrs) - 1, ID: id[:]})
		return len(sc.Listings) - 1
	}
	chain := make([]int, m)
	for i := 0; i < m; i++ {
		id := genRandID(t, "chain.id")
		// shares exactly i+1 leading bits with the target: every chain node is closer than the one before
		for b := 0; b <= i+1; b++ {
			bit := target[b/8] >> (7 - uint(b%8)) & 1
			if b == i+1 {
				bit ^= 1
			}
			id[b/8] = id[b/8]&^(1<<(7-uint(b%8))) | bit<<(7-uint(b%8))
		}
		chain[i] = addAddr(kit.Hex{10, 9, byte(i >> 8), byte(i)}, id, "answer")
	}
	padBeh := pick(t, "chain.padbeh", "silent", "silent", "answer")
	for i := 0; i < m; i++ {
		succAt := uniformInt(t, pad+1, "chain.succat")
		var nodes []int
		for j := 0; j <= pad; j++ {
			if j == succAt {
				if i+1 < m {
					nodes = append(nodes, chain[i+1])
				}
				continue
			}
			id := genRandID(t, "pad.id")
			id[0] = id[0]&0x7f | (^target[0])&0x80 // differs from the target in the first bit: farther than every chain node
			nodes = append(nodes, addAddr(kit.Hex{10, 8, byte(i), byte(j)}, id, padBeh))
		}
		sc.Addrs[sc.Listings[chain[i]].Addr].Nodes = nodes
	}
	sc.Seeds = []TSeed{{Listing: chain[0], WithID: rapid.Bool().Draw(t, "seed.withid")}}
	for i, n := 0, uniformInt(t, 20, "nevents"); i < n; i++ {
		sc.Events = append(sc.Events, TEvent{Kind: "complete", Pick: uniformInt(t, 16, "e.pick")})
	}
	return sc
}

func genTravGeneral(t *rapid.T, bias string) TravSc {
	if uniformInt(t, 12, "chain") == 0 {
		return genTravChain(t)
	}
	target := genID(t, "target")
	sc := TravSc{Family: "general", Target: target[:], K: rapid.IntRange(1, 20).Draw(t, "k"), Alpha: rapid.IntRange(1, 16).Draw(t, "alpha")}
	if rapid.IntRange(0, 3).Draw(t, "smallk") == 0 {
		sc.K = rapid.IntRange(1, 3).Draw(t, "k.small")
	}
	if rapid.IntRange(0, 2).Draw(t, "smallalpha") == 0 {
		sc.Alpha = rapid.IntRange(1, 3).Draw(t, "alpha.small")
	}
	na := rapid.IntRange(1, deep(t, 30)).Draw(t, "naddrs")
	// one case in eight is a large response graph: hundreds of contacts, replies naming up to 30 each, so
	// that the backlog of learned-but-unasked contacts grows far beyond K and Alpha
	big := uniformInt(t, 8, "big") == 0
	maxHost, maxNodes, maxEvents := 40, 10, 40
	if big {
		na = 60 + uniformInt(t, 240, "naddrs.big")
		maxHost, maxNodes, maxEvents = 250, 30, 120
	}
	usedAddr := map[string]bool{}
	for i := 0; i < na; i++ {
		a := TAddr{Port: rapid.SampledFrom([]int{1, 2, 6881}).Draw(t, "a.port")}
		if fam := rapid.IntRange(0, 5).Draw(t, "a.v6"); fam == 0 {
			ip := make([]byte, 16)
			ip[0], ip[1], ip[15] = 0x20, 0x01, byte(rapid.IntRange(1, maxHost).Draw(t, "a.host6"))
			a.IP = ip
		} else if fam == 1 {
			// an IPv4 address in its 16-byte (v4-mapped) form, as nodes6 entries and dual-stack sockets report it
			ip := make([]byte, 16)
			ip[10], ip[11], ip[12], ip[13], ip[14], ip[15] = 0xff, 0xff, 10, 0, byte(rapid.IntRange(0, 1).Draw(t, "a.net")), byte(rapid.IntRange(1, maxHost).Draw(t, "a.host"))
			a.IP = ip
		} else {
			a.IP = kit.Hex{10, 0, byte(rapid.IntRange(0, 1).Draw(t, "a.net")), byte(rapid.IntRange(1, maxHost).Draw(t, "a.host"))}
		}
		if usedAddr[a.key()] {
			continue
		}
		usedAddr[a.key()] = true
		a.Behaviour = rapid.SampledFrom([]string{"answer", "answer", "answer", "silent"}).Draw(t, "a.beh")
		a.Data = rapid.SampledFrom([]string{"string", "string", "string", "nonstring", "none"}).Draw(t, "a.data")
		a.Rejected = rapid.IntRange(0, 7).Draw(t, "a.rejected") == 0
		sc.Addrs = append(sc.Addrs, a)
	}
	// listings: every address gets 1..n advertised IDs (n large under the C04 bias)
	var allIDs [][20]byte
	for ai := range sc.Addrs {
		n := 1
		roll := rapid.IntRange(0, 9).Draw(t, "l.multi")
		if roll == 0 || (bias == "C04" && roll < 4) {
			n = rapid.IntRange(2, 8).Draw(t, "l.n")
		}
		for j := 0; j < n; j++ {
			var id [20]byte
			if len(allIDs) > 0 && rapid.IntRange(0, 5).Draw(t, "l.clone") == 0 {
				id = allIDs[rapid.IntRange(0, len(allIDs)-1).Draw(t, "l.cloneof")] // distance tie with another contact
			} else {
				id = genIDNear(t, target, "l.id")
			}
			allIDs = append(allIDs, id)
			sc.Listings = append(sc.Listings, TListing{Addr: ai, ID: id[:]})
		}
	}
	// what each address answers
	for ai := range sc.Addrs {
		a := &sc.Addrs[ai]
		// the ID it answers with: usually one of its advertised IDs, sometimes another (lying)
		var own []int
		for li, l := range sc.Listings {
			if l.Addr == ai {
				own = append(own, li)
			}
		}
		if rapid.IntRange(0, 5).Draw(t, "a.lie") == 0 {
			a.RespID = hexOf(genIDNear(t, target, "a.respid"))
		} else {
			a.RespID = sc.Listings[own[rapid.IntRange(0, len(own)-1).Draw(t, "a.ownid")]].ID
		}
		nn := rapid.IntRange(0, maxNodes).Draw(t, "a.nnodes")
		if big {
			nn = uniformInt(t, maxNodes+1, "a.nnodes.big")
		}
		for j := 0; j < nn; j++ {
			li := rapid.IntRange(0, len(sc.Listings)-1).Draw(t, "a.node")
			if len(sc.Addrs[sc.Listings[li].Addr].IP) == 16 {
				a.Nodes6 = append(a.Nodes6, li)
			} else {
				a.Nodes = append(a.Nodes, li)
			}
		}
	}
	for i, n := 0, rapid.IntRange(0, 2).Draw(t, "nrejectids"); i < n; i++ {
		sc.RejectIDs = append(sc.RejectIDs, sc.Listings[rapid.IntRange(0, len(sc.Listings)-1).Draw(t, "rejectid")].ID)
	}
	sc.DataFilter = rapid.SampledFrom([]string{"all", "string"}).Draw(t, "datafilter")
	genSeeds := func(label string, min, max int) []TSeed {
		var s []TSeed
		for i, n := 0, rapid.IntRange(min, max).Draw(t, label+".n"); i < n; i++ {
			s = append(s, TSeed{Listing: rapid.IntRange(0, len(sc.Listings)-1).Draw(t, label+".l"), WithID: rapid.IntRange(0, 3).Draw(t, label+".withid") > 0})
		}
		return s
	}
	sc.Seeds = genSeeds("seed", 0, 6)
	ne := rapid.IntRange(0, maxEvents).Draw(t, "nevents")
	for i := 0; i < ne; i++ {
		var e TEvent
		roll := rapid.IntRange(0, 19).Draw(t, "e.kind")
		switch {
		case roll < 13:
			e = TEvent{Kind: "complete", Pick: rapid.IntRange(0, 15).Draw(t, "e.pick")}
		case roll < 16 || (bias == "C03" && roll < 18):
			e = TEvent{Kind: "addnodes", Batch: genSeeds("e.batch", 1, 4), Single: uniformInt(t, 3, "e.single") == 0}
		case roll < 18:
			e = TEvent{Kind: "drain"}
		default:
			e = TEvent{Kind: "stop"}
		}
		sc.Events = append(sc.Events, e)
	}
	return sc
}

// genTravTruthful: a finite network in which every node answers with the true K closest nodes.
func genTravTruthful(t *rapid.T) TravSc {
	target := genID(t, "target")
	sc := TravSc{Family: "truthful", Target: target[:], K: rapid.IntRange(1, 12).Draw(t, "k"), Alpha: rapid.IntRange(1, 8).Draw(t, "alpha"), DataFilter: "all"}
	n := rapid.IntRange(1, 120).Draw(t, "n")
	seenID := map[[20]byte]bool{}
	for i := 0; i < n; i++ {
		id := genIDNear(t, target, "id")
		if rapid.Bool().Draw(t, "uniform") {
			id = genRandID(t, "id.rand")
		}
		if seenID[id] {
			continue
		}
		seenID[id] = true
		ai := len(sc.Addrs)
		ip := kit.Hex{10, 1, byte(ai >> 8), byte(ai)}
		if ai%4 == 3 { // every fourth node is known by the 16-byte form of its IPv4 address
			ip = kit.Hex{0, 0, 0, 0, 0, 0, 0, 0, 0, 0, 0xff, 0xff, 10, 1, byte(ai >> 8), byte(ai)}
		}
		sc.Addrs = append(sc.Addrs, TAddr{IP: ip, Port: 1 + ai%3, Behaviour: "answer", RespID: id[:], Data: "string"})
		sc.Listings = append(sc.Listings, TListing{Addr: ai, ID: id[:]})
	}
	order := make([]int, len(sc.Listings))
	for i := range order {
		order[i] = i
	}
	sort.Slice(order, func(a, b int) bool {
		return refmodel.DistCmp(arr20(sc.Listings[order[a]].ID), arr20(sc.Listings[order[b]].ID), target) < 0
	})
	kc := order
	if len(kc) > sc.K {
		kc = kc[:sc.K]
	}
	for ai := range sc.Addrs {
		sc.Addrs[ai].Nodes = append([]int(nil), kc...)
	}
	for i, m := 0, rapid.IntRange(1, 5).Draw(t, "nseeds"); i < m; i++ {
		sc.Seeds = append(sc.Seeds, TSeed{Listing: rapid.IntRange(0, len(sc.Listings)-1).Draw(t, "seed"), WithID: rapid.Bool().Draw(t, "seed.withid")})
	}
	for i, m := 0, rapid.IntRange(0, deep(t, 30)).Draw(t, "nevents"); i < m; i++ {
		sc.Events = append(sc.Events, TEvent{Kind: "complete", Pick: rapid.IntRange(0, 15).Draw(t, "e.pick")})
	}
	return sc
}

// ---- executor ------------------------------------------------------------------------------------

type tcall struct {
	addr     string
	ctx      context.Context
	release  chan struct{}
	released bool
	returned chan struct{}
}

type tresp struct {
	addr string
	id   [20]byte
	data any
}

type explorer struct {
	sc      TravSc
	c       *kit.Case
	mu      sync.Mutex
	byAddr  map[string]int // addr string -> index in sc.Addrs
	pending []*tcall
	calls   []*tcall
	maxConc int
	// violations noticed inside the callback (positive evidence)
	cbViol     *kit.Violation
	queried    map[string]int
	resps      []tresp
	learned    map[string][]*[20]byte // addr -> advertised IDs (nil = unknown ID)
	op         *traversal.Operation
	conn       *simnet.Conn // only for its goroutine inspection helpers
	stopped    bool
	target     [20]byte
	rejID      map[[20]byte]bool
	stallsSeen int
}

func (e *explorer) filter(ami types.AddrMaybeId) bool {
	if i, ok := e.byAddr[ami.Addr.AddrPort.String()]; ok && e.sc.Addrs[i].Rejected {
		return false
	}
	if ami.Id.Ok && e.rejID[ami.Id.Value.AsByteArray()] {
		return false
	}
	return true
}

func (e *explorer) dataFilter(d any) bool {
	if e.sc.DataFilter == "string" {
		_, ok := d.(string)
		return ok
	}
	return true
}

func (e *explorer) ami(s TSeed) types.AddrMaybeId {
	l := e.sc.Listings[s.Listing]
	r := types.AddrMaybeId{Addr: krpc.NodeAddrPort{AddrPort: e.sc.Addrs[l.Addr].addrPort()}}
	if s.WithID {
		r.Id = generics.Some(int160.FromByteArray(arr20(l.ID)))
	}
	return r
}

func (e *explorer) learn(s TSeed) {
	l := e.sc.Listings[s.Listing]
	k := e.sc.Addrs[l.Addr].key()
	if s.WithID {
		id := arr20(l.ID)
		e.learned[k] = append(e.learned[k], &id)
	} else {
		e.learned[k] = append(e.learned[k], nil)
	}
}

func (e *explorer) nodeInfos(ls []int) []krpc.NodeInfo {
	var r []krpc.NodeInfo
	for _, li := range ls {
		l := e.sc.Listings[li]
		a := e.sc.Addrs[l.Addr]
		r = append(r, krpc.NodeInfo{ID: arr20(l.ID), Addr: krpc.NodeAddr{IP: append([]byte(nil), a.IP...), Port: a.Port}})
	}
	return r
}

func (e *explorer) doQuery(ctx context.Context, addr krpc.NodeAddr) traversal.QueryResult {
	key := addr.ToNodeAddrPort().AddrPort.String()
	call := &tcall{addr: key, ctx: ctx, release: make(chan struct{}), returned: make(chan struct{})}
	e.mu.Lock()
	e.calls = append(e.calls, call)
	e.pending = append(e.pending, call)
	if len(e.pending) > e.maxConc {
		e.maxConc = len(e.pending)
	}
	if len(e.pending) > e.sc.Alpha && e.cbViol == nil {
		e.cbViol = kit.Violatef("C04:alpha-exceeded", "%d queries in flight with Alpha=%d", len(e.pending), e.sc.Alpha)
	}
	e.queried[key]++
	if e.queried[key] > 1 && e.cbViol == nil {
		e.cbViol = kit.Violatef("C04:address-queried-twice", "address %s queried %d times (advertised under %d listings)", key, e.queried[key], len(e.learned[key]))
	}
	ai, known := e.byAddr[key]
	if known && e.sc.Addrs[ai].Rejected && e.cbViol == nil {
		e.cbViol = kit.Violatef("C04:filtered-address-queried", "address %s is rejected by the node filter but was queried", key)
	}
	if _, offered := e.learned[key]; !offered && e.cbViol == nil {
		e.cbViol = kit.Violatef("C04:unknown-address-queried", "address %s was queried but never offered to the lookup", key)
	}
	if known && e.cbViol == nil {
		// some offered (addr, ID?) pair must pass the filter
		ok := false
		for _, idp := range e.learned[key] {
			ami := types.AddrMaybeId{Addr: krpc.NodeAddrPort{AddrPort: e.sc.Addrs[ai].addrPort()}}
			if idp != nil {
				ami.Id = generics.Some(int160.FromByteArray(*idp))
			}
			if e.filter(ami) {
				ok = true
			}
		}
		if !ok {
			e.cbViol = kit.Violatef("C04:filtered-candidate-queried", "address %s was queried although every (address, ID) pair it was offered under fails the node filter", key)
		}
	}
	e.mu.Unlock()
	<-call.release
	var res traversal.QueryResult
	e.mu.Lock()
	if known {
		a := e.sc.Addrs[ai]
		if a.Behaviour == "answer" {
			res.ResponseFrom = &krpc.NodeInfo{ID: arr20(a.RespID), Addr: addr}
			switch a.Data {
			case "string":
				res.ClosestData = "token-" + key
			case "nonstring":
				res.ClosestData = 42
			}
			res.Nodes = e.nodeInfos(a.Nodes)
			res.Nodes6 = e.nodeInfos(a.Nodes6)
			e.resps = append(e.resps, tresp{key, arr20(a.RespID), res.ClosestData})
			for _, li := range append(append([]int(nil), a.Nodes...), a.Nodes6...) {
				e.learn(TSeed{Listing: li, WithID: true})
			}
		}
	}
	// remove from pending
	for i, p := range e.pending {
		if p == call {
			e.pending = append(e.pending[:i], e.pending[i+1:]...)
			break
		}
	}
	e.mu.Unlock()
	close(call.returned)
	return res
}

func (e *explorer) npending() int {
	e.mu.Lock()
	defer e.mu.Unlock()
	return len(e.pending)
}

const settleTimeout = 20 * time.Second

// settle spins until the operation has reacted to everything that happened so far: every query it
// counts as outstanding is parked in the harness, and it has no further query to start. Returns a
// violation if it is provably stuck, sets Inconclusive on a deadline with runnable goroutines.
func (e *explorer) settle() *kit.Violation {
	deadline := time.Now().Add(settleTimeout)
	spins := 0
	for {
		snap := e.op.VerifSnapshot()
		parked := e.npending()
		if snap.Outstanding == parked && (snap.Stopping || snap.Outstanding >= e.sc.Alpha || !snap.HaveQuery) {
			return nil
		}
		spins++
		if spins < 200 {
			// yield
			time.Sleep(0)
		} else {
			time.Sleep(50 * time.Microsecond)
		}
		if spins%2000 == 0 || time.Now().After(deadline) {
			// stuck? if every module goroutine is blocked nothing will ever change
			if spins >= 4000 {
				if blocked, _ := e.conn.AllBlocked(); blocked {
					time.Sleep(5 * time.Millisecond)
					snap2 := e.op.VerifSnapshot()
					if blocked2, _ := e.conn.AllBlocked(); blocked2 && snap2 == snap && e.npending() == parked &&
						!(snap.Outstanding == parked && (snap.Stopping || snap.Outstanding >= e.sc.Alpha || !snap.HaveQuery)) {
						return kit.Violatef("C03:run-loop-stuck", "lookup is wedged: outstanding=%d parked-in-harness=%d haveQuery=%v alpha=%d stopping=%v and every goroutine is blocked (lost wake-up)", snap.Outstanding, parked, snap.HaveQuery, e.sc.Alpha, snap.Stopping)
					}
				}
			}
			if time.Now().After(deadline) {
				e.c.Inconclusive = fmt.Sprintf("traversal did not settle in %v: %+v parked=%d", settleTimeout, snap, parked)
				return nil
			}
		}
	}
}

func (e *explorer) releaseOne(pick int) bool {
	e.mu.Lock()
	if len(e.pending) == 0 {
		e.mu.Unlock()
		return false
	}
	call := e.pending[pick%len(e.pending)]
	if call.released {
		// already released, still returning
		var other *tcall
		for _, p := range e.pending {
			if !p.released {
				other = p
				break
			}
		}
		if other == nil {
			e.mu.Unlock()
			return false
		}
		call = other
	}
	call.released = true
	e.mu.Unlock()
	close(call.release)
	<-call.returned
	return true
}

// distance helpers
func (e *explorer) dist(id [20]byte) [20]byte { return refmodel.Xor(id, e.target) }

type closestElem struct {
	id   [20]byte
	addr string
	data any
}

func (e *explorer) closest() []closestElem {
	var r []closestElem
	e.op.Closest().Range(func(el k_nearest_nodes.Elem) {
		r = append(r, closestElem{el.ID, el.Addr.AddrPort.String(), el.Data})
	})
	return r
}

// checkStallSafety is evaluated at a moment the operation reported "stalled".
func (e *explorer) checkStallSafety() *kit.Violation {
	e.mu.Lock()
	defer e.mu.Unlock()
	if n := len(e.pending); n != 0 {
		return kit.Violatef("C03:stalled-with-queries-in-flight", "lookup reported stalled while %d queries are in flight", n)
	}
	cl := e.closest()
	full := len(cl) >= e.sc.K
	var far [20]byte
	if len(cl) > 0 {
		far = cl[len(cl)-1].id
		for _, m := range cl {
			if refmodel.DistCmp(m.id, far, e.target) > 0 {
				far = m.id
			}
		}
	}
	keys := make([]string, 0, len(e.learned))
	for k := range e.learned {
		keys = append(keys, k)
	}
	sort.Strings(keys)
	for _, k := range keys {
		if e.queried[k] > 0 {
			continue
		}
		ai := e.byAddr[k]
		ap := e.sc.Addrs[ai].addrPort()
		for _, idp := range e.learned[k] {
			ami := types.AddrMaybeId{Addr: krpc.NodeAddrPort{AddrPort: ap}}
			if idp != nil {
				ami.Id = generics.Some(int160.FromByteArray(*idp))
			}
			if !e.filter(ami) {
				continue
			}
			if !full {
				return kit.Violatef("C03:stalled-with-unqueried-candidate", "lookup reported stalled with %d/%d results although learned contact %v passes the filter and was never queried", len(cl), e.sc.K, ami)
			}
			if idp != nil && refmodel.DistCmp(*idp, far, e.target) <= 0 {
				return kit.Violatef("C03:stalled-with-closer-candidate", "lookup reported stalled although unqueried contact %v is not farther from the target than the farthest member %x", ami, far)
			}
		}
	}
	return nil
}

// tryStall does a non-blocking receive on Stalled(); reports (stalled, closed).
func (e *explorer) tryStall() (bool, bool) {
	select {
	case _, ok := <-e.op.Stalled():
		return ok, !ok
	default:
		return false, false
	}
}

func runTrav(sc TravSc, c *kit.Case, clause string) *kit.Violation {
	e := &explorer{sc: sc, c: c, byAddr: map[string]int{}, queried: map[string]int{}, learned: map[string][]*[20]byte{}, rejID: map[[20]byte]bool{}, target: arr20(sc.Target), conn: simnet.New(nil)}
	for i, a := range sc.Addrs {
		e.byAddr[a.key()] = i
	}
	for _, id := range sc.RejectIDs {
		e.rejID[arr20(id)] = true
	}
	var viol *kit.Violation
	mine := func(v *kit.Violation) bool { return v != nil && len(v.Key) >= 3 && v.Key[:3] == clause }
	report := func(v *kit.Violation) {
		if viol == nil && mine(v) {
			viol = v
		}
	}
	e.op = traversal.Start(traversal.OperationInput{
		Target: krpc.ID(e.target), Alpha: sc.Alpha, K: sc.K,
		DoQuery: e.doQuery, NodeFilter: e.filter, DataFilter: e.dataFilter,
	})
	addNodes := func(batch []TSeed, single bool) {
		var l []types.AddrMaybeId
		e.mu.Lock()
		for _, s := range batch {
			e.learn(s)
			l = append(l, e.ami(s))
		}
		e.mu.Unlock()
		if single {
			c.Label("contacts-added-one-by-one")
			for _, a := range l {
				e.op.AddNode(a)
			}
			return
		}
		e.op.AddNodes(l)
	}
	seedsSingly := len(sc.Events)%4 == 3
	if seedsSingly {
		// hand the seeds to a lookup that is idle: take the empty lookup's stall report first, so that its
		// run loop is asleep when the first contact arrives (nothing in flight can wake it by accident)
		select {
		case <-e.op.Stalled():
		case <-time.After(5 * time.Second):
			c.Inconclusive = "empty lookup did not report stalled within 5 s"
			e.op.Stop()
			return nil
		}
	}
	addNodes(sc.Seeds, seedsSingly)

	sawStall, lateAdd, stopInFlight, stallLeftovers, reordered := false, false, false, false, false
	issueSeq := 0
	_ = issueSeq
	finish := func() *kit.Violation {
		// release everything still parked so that no goroutine outlives the case
		for i := 0; i < 100000; i++ {
			if !e.releaseOne(0) {
				snap := e.op.VerifSnapshot()
				if snap.Outstanding == 0 || e.c.Inconclusive != "" {
					break
				}
				time.Sleep(20 * time.Microsecond)
			}
		}
		return nil
	}
	step := func() bool { // returns false to abort
		if v := e.settle(); v != nil {
			report(v)
			if viol == nil {
				viol = nil
			}
			return false
		}
		if c.Inconclusive != "" {
			return false
		}
		e.mu.Lock()
		cb := e.cbViol
		e.mu.Unlock()
		report(cb)
		// Stop completes once the in-flight queries have returned - not before
		if e.stopped {
			select {
			case <-e.op.Stopped():
				if n := e.npending(); n > 0 {
					report(kit.Violatef("C03:stopped-while-queries-in-flight", "Stopped() fired while %d queries of the lookup are still in flight (held by the harness, not yet returned)", n))
				}
			default:
			}
		}
		// unexpected / expected stall reports
		if !e.stopped {
			if st, _ := e.tryStall(); st {
				sawStall = true
				e.stallsSeen++
				if v := e.checkStallSafety(); v != nil {
					report(v)
				}
				cl := e.closest()
				if len(cl) >= sc.K {
					e.mu.Lock()
					for k := range e.learned {
						if e.queried[k] == 0 {
							stallLeftovers = true
						}
					}
					e.mu.Unlock()
				}
			}
		}
		return viol == nil
	}
	checkCancelled := func() {
		e.mu.Lock()
		inflight := append([]*tcall(nil), e.pending...)
		e.mu.Unlock()
		for _, call := range inflight {
			if call.released {
				continue
			}
			ok := waitFor(3*time.Second, func() bool {
				select {
				case <-call.ctx.Done():
					return true
				default:
					return false
				}
			})
			if !ok {
				if blocked, who := e.conn.AllBlocked(); blocked {
					report(kit.Violatef("C04:context-not-cancelled", "query to %s was in flight when the lookup was stopped and its context was never cancelled", call.addr))
				} else {
					c.Inconclusive = "context not cancelled within 3s but a goroutine is runnable: " + who
				}
				break
			}
		}
	}
	aborted := false
	for _, ev := range sc.Events {
		if !step() {
			aborted = true
			break
		}
		switch ev.Kind {
		case "complete":
			e.mu.Lock()
			np := len(e.pending)
			e.mu.Unlock()
			if np > 1 && ev.Pick%np != 0 {
				reordered = true
			}
			e.releaseOne(ev.Pick)
		case "addnodes":
			if sawStall && !e.stopped {
				lateAdd = true
			}
			addNodes(ev.Batch, ev.Single)
		case "drain":
			for e.releaseOne(0) {
				if v := e.settle(); v != nil {
					report(v)
					break
				}
				if c.Inconclusive != "" {
					break
				}
			}
		case "stop":
			if !e.stopped {
				if e.npending() > 0 {
					stopInFlight = true
				}
				e.op.Stop()
				e.stopped = true
				checkCancelled()
			}
		}
	}
	if c.Inconclusive != "" {
		finish()
		return nil
	}
	if !aborted && viol == nil {
		// run to completion: release everything in issue order until nothing is pending
		for guard := 0; guard < 100000 && viol == nil; guard++ {
			if !step() {
				break
			}
			if !e.releaseOne(0) {
				break
			}
		}
	}
	if c.Inconclusive != "" {
		finish()
		return nil
	}
	if viol == nil && !e.stopped {
		// Liveness: nothing in flight, nothing pending in the harness: the lookup must report stalled.
		if v := e.settle(); v != nil {
			report(v)
		} else if c.Inconclusive == "" {
			got := false
			select {
			case _, ok := <-e.op.Stalled():
				got = ok
			case <-time.After(3 * time.Second):
			}
			if !got {
				snap := e.op.VerifSnapshot()
				if blocked, who := e.conn.AllBlocked(); blocked {
					report(kit.Violatef("C03:no-stall-report", "all queries returned and none is pending, yet the lookup never reported stalled (snapshot %+v, every goroutine blocked)", snap))
				} else {
					c.Inconclusive = "no stall report within 3s but a goroutine is runnable: " + who
				}
			} else {
				sawStall = true
				report(e.checkStallSafety())
			}
		}
	}
	if c.Inconclusive != "" {
		finish()
		return nil
	}
	// C04: contexts of queries in flight at Stop are cancelled
	if !e.stopped {
		if e.npending() > 0 {
			stopInFlight = true
		}
		e.op.Stop()
		e.stopped = true
	}
	checkCancelled()
	finish()
	if c.Inconclusive != "" {
		return nil
	}
	// Stop completes once the in-flight queries returned
	select {
	case <-e.op.Stopped():
	case <-time.After(3 * time.Second):
		if blocked, who := e.conn.AllBlocked(); blocked {
			report(kit.Violatef("C03:stop-never-completes", "Stop() was called and every query returned, but Stopped() never fired (snapshot %+v)", e.op.VerifSnapshot()))
		} else {
			c.Inconclusive = "Stopped() not signalled within 3s but a goroutine is runnable: " + who
			return nil
		}
	}
	e.mu.Lock()
	report(e.cbViol)
	e.mu.Unlock()
	// C02: the result set
	report(e.checkResult())
	// labels / non-triviality
	passing := 0
	seen := map[string]bool{}
	for _, r := range e.resps {
		k := fmt.Sprintf("%x|%s", r.id, r.addr)
		if seen[k] {
			continue
		}
		seen[k] = true
		ami := e.respAmi(r)
		if e.filter(ami) && e.dataFilter(r.data) {
			passing++
		}
	}
	offeredTwice := false
	for k, l := range e.learned {
		if len(l) >= 2 {
			offeredTwice = true
		}
		if i, ok := e.byAddr[k]; ok && e.sc.Addrs[i].Rejected {
			offeredTwice = true
		}
	}
	switch clause {
	case "C02":
		if passing > sc.K || reordered {
			c.NonTrivial()
		}
	case "C03":
		if lateAdd || stopInFlight || stallLeftovers {
			c.NonTrivial()
		}
	case "C04":
		if offeredTwice {
			c.NonTrivial()
		}
	}
	if passing > sc.K {
		c.Label("trimmed")
	}
	if reordered {
		c.Label("completion-reordered")
	}
	if lateAdd {
		c.Label("late-addnodes-after-stall")
	}
	if stopInFlight {
		c.Label("stop-with-queries-in-flight")
	}
	if stallLeftovers {
		c.Label("stall-with-unqueried-leftovers")
	}
	if offeredTwice {
		c.Label("address-offered-repeatedly-or-filtered")
	}
	c.Label(fmt.Sprintf("queries-%d", bucketCount(len(e.calls))))
	return viol
}

func bucketCount(n int) int {
	switch {
	case n == 0:
		return 0
	case n < 5:
		return 1
	case n < 20:
		return 5
	}
	return 20
}

func (e *explorer) respAmi(r tresp) types.AddrMaybeId {
	ap, _ := netip.ParseAddrPort(r.addr)
	return types.AddrMaybeId{Addr: krpc.NodeAddrPort{AddrPort: ap}, Id: generics.Some(int160.FromByteArray(r.id))}
}

func (e *explorer) checkResult() *kit.Violation {
	e.mu.Lock()
	defer e.mu.Unlock()
	cl := e.closest()
	if len(cl) > e.sc.K {
		return kit.Violatef("C02:result-larger-than-k", "result set holds %d > K=%d contacts", len(cl), e.sc.K)
	}
	type rk struct {
		id   [20]byte
		addr string
	}
	respBy := map[rk]tresp{}
	for _, r := range e.resps {
		respBy[rk{r.id, r.addr}] = r
	}
	member := map[rk]bool{}
	for i, m := range cl {
		r, ok := respBy[rk{m.id, m.addr}]
		if !ok {
			return kit.Violatef("C02:member-never-answered", "result member %x at %s did not answer any query of this lookup", m.id, m.addr)
		}
		if !e.filter(e.respAmi(r)) {
			return kit.Violatef("C02:member-fails-node-filter", "result member %x at %s fails the node filter", m.id, m.addr)
		}
		if !e.dataFilter(r.data) {
			return kit.Violatef("C02:member-fails-data-filter", "result member %x at %s carries data %#v, which fails the data filter", m.id, m.addr, r.data)
		}
		if m.data != r.data {
			return kit.Violatef("C02:member-wrong-data", "result member %x at %s stored with data %#v, it returned %#v", m.id, m.addr, m.data, r.data)
		}
		if i > 0 && refmodel.DistCmp(cl[i-1].id, m.id, e.target) > 0 {
			return kit.Violatef("C02:result-not-in-distance-order", "result iteration is not in non-decreasing distance at %d", i)
		}
		member[rk{m.id, m.addr}] = true
	}
	// no filter-passing responder outside the set is strictly closer than a member
	keys := make([]rk, 0, len(respBy))
	for k := range respBy {
		keys = append(keys, k)
	}
	sort.Slice(keys, func(a, b int) bool {
		if keys[a].id != keys[b].id {
			return string(keys[a].id[:]) < string(keys[b].id[:])
		}
		return keys[a].addr < keys[b].addr
	})
	passing := 0
	for _, k := range keys {
		r := respBy[k]
		if !e.filter(e.respAmi(r)) || !e.dataFilter(r.data) {
			continue
		}
		passing++
		if member[k] {
			continue
		}
		if len(cl) < e.sc.K {
			return kit.Violatef("C02:responder-missing-from-unfilled-set", "responder %x at %s passed the filters but is absent from a result set of %d < K=%d", k.id, k.addr, len(cl), e.sc.K)
		}
		for _, m := range cl {
			if refmodel.DistCmp(k.id, m.id, e.target) < 0 {
				return kit.Violatef("C02:closer-responder-excluded", "responder %x at %s passed the filters, is absent from the result, and is strictly closer to the target than member %x", k.id, k.addr, m.id)
			}
		}
	}
	if e.sc.Family == "truthful" && !e.scStoppedEarly() {
		// exactly the K closest nodes of the network (as a multiset of distances)
		var all [][20]byte
		for _, l := range e.sc.Listings {
			all = append(all, arr20(l.ID))
		}
		sort.Slice(all, func(a, b int) bool { return refmodel.DistCmp(all[a], all[b], e.target) < 0 })
		want := all
		if len(want) > e.sc.K {
			want = want[:e.sc.K]
		}
		if len(cl) != len(want) {
			return kit.Violatef("C02:truthful-network-wrong-size", "every node answers with the true K closest of a %d-node network, K=%d, but the result holds %d contacts", len(all), e.sc.K, len(cl))
		}
		for i := range want {
			if cl[i].id != want[i] {
				return kit.Violatef("C02:truthful-network-not-k-closest", "result[%d] = %x but the %d-th closest node of the network is %x", i, cl[i].id, i, want[i])
			}
		}
	}
	return nil
}

func (e *explorer) scStoppedEarly() bool {
	for _, ev := range e.sc.Events {
		if ev.Kind == "stop" {
			return true
		}
	}
	return false
}

func init() {
	expl := "schedule explorer over traversal.Operation: DoQuery is a harness callback that parks each query; a generated schedule decides which in-flight query completes next and when AddNodes / AddNode (contact by contact, also into an idle lookup) / Stop happen; between events the harness spins on the VerifSnapshot hook until the operation has reacted (no sleeps). "
	kit.Register("C02a",
		expl+"Response graphs of 1..30 addresses (one case in eight: 60..300 addresses with replies naming up to 30 contacts; one in twelve: a chain of 20..60 ever closer nodes each naming its successor once among 3..16 far contacts) advertised under 1..8 IDs each (cloned IDs for distance ties, lying and silent nodes, string/non-string/no token, node filter by address and by ID, data filter). Oracle on the final result set, from the harness's own record of who answered what: <= K members, each answered, passes both filters, keeps its own data, iteration in distance order, no filter-passing responder outside the set strictly closer than a member (or absent while the set is not full). Non-trivial: more than K filter-passing responders, or a completion order different from issue order.",
		[]string{"result sets are judged by a validity predicate (ties admit several correct sets)"},
		func(t *rapid.T) TravSc { return genTravGeneral(t, "C02") },
		func(sc TravSc, c *kit.Case) *kit.Violation { return runTrav(sc, c, "C02") })
	kit.Register("C02b",
		expl+"Truthful finite networks of 1..120 nodes with distinct IDs in which every node answers with the true K closest nodes; arbitrary non-empty seeds; generated completion order. Oracle: the result is exactly the K closest nodes of the network. Non-trivial: more than K nodes or reordered completions.",
		nil, genTravTruthful,
		func(sc TravSc, c *kit.Case) *kit.Violation { return runTrav(sc, c, "C02") })
	kit.Register("C03a",
		expl+"Same response graphs, schedules biased to late AddNodes after a stall, Stop at any point and drains. Oracle: (liveness) once every query returned the lookup reports stalled, Stop completes - absence is judged by a deadlock detector (every module goroutine blocked), never a stopwatch; (safety) at every stall report no query is in flight and every learned filter-passing contact whose address was not queried is excused only by a full result set and a distance strictly beyond the farthest member or an unknown ID. Non-trivial: stall then late AddNodes, Stop with queries in flight, or stall with unqueried leftovers.",
		[]string{"the harness owns completion order, AddNodes and Stop; interleavings of the operation's internal goroutines around its mutex are sampled, not enumerated"},
		func(t *rapid.T) TravSc { return genTravGeneral(t, "C03") },
		func(sc TravSc, c *kit.Case) *kit.Violation { return runTrav(sc, c, "C03") })
	kit.Register("C04a",
		expl+"Response graphs biased to one address advertised under 2..8 IDs, repeated across replies and seeds (with and without ID), and filtered addresses listed by other nodes. Oracle at every DoQuery entry: at most Alpha concurrent, address not queried before, address not rejected by the filter and offered under some filter-passing (address, ID) pair; after Stop every parked query's context is cancelled. Non-trivial: an address offered at least twice or a filtered address offered.",
		nil,
		func(t *rapid.T) TravSc { return genTravGeneral(t, "C04") },
		func(sc TravSc, c *kit.Case) *kit.Violation { return runTrav(sc, c, "C04") })
}
