package props

// C17 — BEP 42 node-ID security is computed exactly as specified.

import (
	"fmt"
	"net"
	"os"
	"strconv"
	"testing"

	"pgregory.net/rapid"

	dht "github.com/anacrolix/dht/v2"
	"github.com/anacrolix/dht/v2/krpc"

	"verifharness/kit"
	"verifharness/refmodel"
	"verifharness/simnet"
)

type C17Sc struct {
	IP      kit.Hex // 4 or 16 bytes
	ID      kit.Hex
	FlipBit int // 0..20
	// Address bits outside the BEP 42 mask to perturb (metamorphic: verdict must not change).
	Perturb kit.Hex
}

func genC17IP(t *rapid.T) net.IP {
	switch rapid.IntRange(0, 9).Draw(t, "ipkind") {
	case 0:
		return genIPv4(t, "ip") // includes private/loopback
	case 1:
		return net.IP{169, 254, byte(rapid.IntRange(0, 255).Draw(t, "b")), 1}
	case 2:
		return net.IP{172, byte(rapid.IntRange(14, 33).Draw(t, "b")), 0, 1} // around 172.16/12
	case 3:
		return net.IP(genBytesN(t, 4, "ip4")).To16() // v4-mapped
	case 4, 5:
		return genIPv6(t, "ip6")
	case 6:
		ip := net.ParseIP("::1").To16()
		if rapid.Bool().Draw(t, "notloop") {
			ip[15] = 2
		}
		return ip
	default:
		return net.IP(genBytesN(t, 4, "ip4"))
	}
}

func genC17(t *rapid.T) C17Sc {
	ip := genC17IP(t)
	id := genID(t, "id")
	if rapid.Bool().Draw(t, "presecure") {
		id = refmodel.Bep42Secure(id, ip)
	}
	return C17Sc{IP: kit.Hex(ip), ID: id[:], FlipBit: rapid.IntRange(0, 20).Draw(t, "flip"), Perturb: genBytesN(t, len(ip), "perturb")}
}

func runC17(sc C17Sc, c *kit.Case) (v *kit.Violation) {
	defer guard("C17:panic", &v, func() string { return fmt.Sprintf("%+v", sc) })
	ip := net.IP(append([]byte(nil), sc.IP...))
	id := arr20(sc.ID)
	exempt := refmodel.Bep42Exempt(ip)
	if !exempt {
		c.NonTrivial()
	}
	if ip.To4() != nil {
		c.Label("ipv4")
	} else {
		c.Label("ipv6")
	}
	if exempt {
		c.Label("exempt")
	}
	// verification agrees with the rule
	got := dht.NodeIdSecure(id, ip)
	want := exempt || refmodel.Bep42Match(id, ip)
	if got != want {
		return kit.Violatef("C17:verify-disagrees", "NodeIdSecure(%x, %v) = %v, BEP 42 rule says %v (exempt=%v)", id, ip, got, want, exempt)
	}
	// securing
	sec := krpc.ID(id)
	dht.SecureNodeId(&sec, ip)
	ref := refmodel.Bep42Secure(id, ip)
	for i := 21; i < 160; i++ {
		if sec[i/8]>>(7-uint(i%8))&1 != id[i/8]>>(7-uint(i%8))&1 {
			return kit.Violatef("C17:secure-changes-other-bits", "SecureNodeId(%x, %v) = %x changed bit %d", id, ip, sec, i)
		}
	}
	if [20]byte(sec) != ref {
		return kit.Violatef("C17:secure-wrong-prefix", "SecureNodeId(%x, %v) = %x, BEP 42 gives %x", id, ip, sec, ref)
	}
	if !dht.NodeIdSecure(sec, ip) {
		return kit.Violatef("C17:secured-id-does-not-verify", "SecureNodeId(%x, %v) = %x does not verify", id, ip, sec)
	}
	again := sec
	dht.SecureNodeId(&again, ip)
	if again != sec {
		return kit.Violatef("C17:secure-not-idempotent", "securing %x again for %v gives %x", sec, ip, again)
	}
	if !exempt {
		// flipping any of the first 21 bits of a secure ID makes it insecure
		fl := sec
		fl[sc.FlipBit/8] ^= 1 << (7 - uint(sc.FlipBit%8))
		if dht.NodeIdSecure(fl, ip) {
			return kit.Violatef("C17:flipped-bit-still-secure", "%x is secure for %v, and so is %x (bit %d flipped)", sec, ip, fl, sc.FlipBit)
		}
		// changing address bits the mask discards does not change the verdict
		ip2 := net.IP(append([]byte(nil), ip...))
		var mask []byte
		off := 0
		if v4 := ip.To4(); v4 != nil {
			mask = []byte{0x03, 0x0f, 0x3f, 0xff}
			off = len(ip) - 4
		} else {
			mask = []byte{0x01, 0x03, 0x07, 0x0f, 0x1f, 0x3f, 0x7f, 0xff, 0, 0, 0, 0, 0, 0, 0, 0}
		}
		for i, m := range mask {
			ip2[off+i] = ip2[off+i]&m | sc.Perturb[off+i]&^m
		}
		if !refmodel.Bep42Exempt(ip2) && (ip2.To4() == nil) == (ip.To4() == nil) {
			if dht.NodeIdSecure(sec, ip2) != true {
				return kit.Violatef("C17:masked-bits-matter", "%x verifies for %v but not for %v, which differs only in masked-out bits", sec, ip, ip2)
			}
		}
	}
	return nil
}

// ---- configurations ------------------------------------------------------------------------------

type C17CfgSc struct {
	PublicIP   kit.Hex
	NoSecurity bool
	ViaNew     bool // NewServer vs InitNodeId directly
	WithConn   bool
	LocalPort  int
	NodeID     kit.Hex // empty = let the node pick
	Determ     bool    // also exercise MakeDeterministicNodeID
}

func genC17Cfg(t *rapid.T) C17CfgSc {
	sc := C17CfgSc{
		PublicIP:   kit.Hex(genC17IP(t)),
		NoSecurity: rapid.Bool().Draw(t, "nosec"),
		ViaNew:     rapid.Bool().Draw(t, "vianew"),
		WithConn:   rapid.Bool().Draw(t, "withconn"),
		LocalPort:  genPort(t, "lport"),
		Determ:     rapid.Bool().Draw(t, "determ"),
	}
	return sc
}

func runC17Cfg(sc C17CfgSc, c *kit.Case) (v *kit.Violation) {
	defer guard("C17:panic-config", &v, func() string { return fmt.Sprintf("%+v", sc) })
	ip := net.IP(sc.PublicIP)
	exempt := refmodel.Bep42Exempt(ip)
	if !exempt {
		c.NonTrivial()
	}
	verifies := func(id [20]byte) bool { return exempt || refmodel.Bep42Match(id, ip) }
	if sc.Determ {
		c.Label("deterministic-id")
		id := dht.MakeDeterministicNodeID(&net.UDPAddr{IP: ip, Port: sc.LocalPort})
		if !verifies(id) {
			return kit.Violatef("C17:deterministic-id-insecure", "MakeDeterministicNodeID(%v) = %x does not verify for that address", ip, id)
		}
	}
	if sc.ViaNew {
		c.Label("NewServer")
		conn := simnet.New(&net.UDPAddr{IP: net.IP{0, 0, 0, 0}, Port: sc.LocalPort})
		s, err := dht.NewServer(&dht.ServerConfig{
			Conn: conn, PublicIP: ip, NoSecurity: sc.NoSecurity, Logger: silentLogger,
			StartingNodes: func() ([]dht.Addr, error) { return nil, nil },
		})
		if err != nil {
			return kit.Violatef("C17:newserver-error", "NewServer: %v", err)
		}
		id := s.ID()
		s.Close()
		conn.Close()
		if !verifies(id) {
			return kit.Violatef("C17:server-id-insecure", "server configured with PublicIP %v (NoSecurity=%v) chose ID %x, which does not verify for it", ip, sc.NoSecurity, id)
		}
		return nil
	}
	c.Label("InitNodeId")
	cfg := &dht.ServerConfig{PublicIP: ip, NoSecurity: sc.NoSecurity}
	if sc.WithConn {
		cfg.Conn = simnet.New(&net.UDPAddr{IP: net.IP{0, 0, 0, 0}, Port: sc.LocalPort})
	}
	if !sc.WithConn && sc.NoSecurity {
		// documented: without a Conn and with security disabled InitNodeId does not secure; NewServer
		// never calls it that way. Excluded from the claim, counted.
		c.Label("excluded-no-conn-no-security")
		cfg.InitNodeId()
		return nil
	}
	cfg.InitNodeId()
	if !verifies(cfg.NodeId) {
		return kit.Violatef("C17:initnodeid-insecure", "InitNodeId with PublicIP %v (conn=%v, NoSecurity=%v) chose %x, which does not verify", ip, sc.WithConn, sc.NoSecurity, cfg.NodeId)
	}
	return nil
}

// TestC17Exhaustive enumerates the 2^20 significant (masked) IPv4 values x the 8 values of r and
// compares the 21-bit prefix SecureNodeId produces, and the verdict of NodeIdSecure, with the
// bitwise reference. VERIF_C17_SLICE=k restricts r to one value (quick tier).
func TestC17Exhaustive(t *testing.T) {
	rs := []int{0, 1, 2, 3, 4, 5, 6, 7}
	exhaustive := true
	if s := os.Getenv("VERIF_C17_SLICE"); s != "" {
		k, _ := strconv.Atoi(s)
		rs = []int{k % 8}
		exhaustive = false
	}
	var evals int64
	var digests []uint64
	var samples []any
	for _, r := range rs {
		for m := 0; m < 1<<20; m++ {
			// masked bits: 2 + 4 + 6 + 8
			ip := net.IP{byte(m >> 18 & 0x03), byte(m >> 14 & 0x0f), byte(m >> 8 & 0x3f), byte(m)}
			// put something in the masked-out bits; avoid exempt ranges
			ip[0] |= 0x40
			ip[1] |= 0x10 * byte(m%7)
			if refmodel.Bep42Exempt(ip) {
				ip[0] ^= 0x80
			}
			var id krpc.ID
			id[19] = byte(r) | byte(m<<3)
			id[5] = byte(m)
			orig := id
			dht.SecureNodeId(&id, ip)
			ref := refmodel.Bep42Secure(orig, ip)
			evals++
			if [20]byte(id) != ref {
				t.Fatalf("VIOLATION-CANDIDATE C17:secure-wrong-prefix: SecureNodeId(%x, %v) = %x, BEP 42 gives %x", orig, ip, id, ref)
			}
			if !dht.NodeIdSecure(id, ip) {
				t.Fatalf("VIOLATION-CANDIDATE C17:secured-id-does-not-verify: %x for %v", id, ip)
			}
			bad := id
			bad[m%3] ^= 1 << uint(m%5+3)
			if dht.NodeIdSecure(bad, ip) {
				t.Fatalf("VIOLATION-CANDIDATE C17:flipped-bit-still-secure: %x for %v", bad, ip)
			}
			if m%4096 == 0 {
				digests = append(digests, uint64(r)<<32|uint64(m))
				if len(samples) < 3 {
					samples = append(samples, map[string]any{"ip": ip.String(), "r": r, "secured": fmt.Sprintf("%x", id[:])})
				}
			}
		}
	}
	kit.Count("C17x", "enumeration of all 2^20 masked IPv4 values x r in "+fmt.Sprint(rs)+": SecureNodeId prefix == bitwise CRC32-C reference, result verifies, a flipped prefix bit does not (distinct_nontrivial counts one representative per 4096 enumerated addresses)", evals, digests, samples)
	kit.Extra("exhaustive", exhaustive)
	kit.Extra("enumerated", evals)
}

func init() {
	kit.Register("C17a",
		"rapid: (address, ID) pairs: IPv4 incl. private/loopback/link-local and the 172.16/12 boundary, v4-mapped, IPv6 incl. fe80::/10 and ::1; IDs random/zero/ones/already secure. Oracle: bitwise CRC32-C reference of BEP 42: NodeIdSecure == rule (true for exempt), SecureNodeId changes only the first 21 bits, equals the reference, verifies, is idempotent; flipping one of the 21 bits makes it insecure; changing masked-out address bits keeps it secure. Non-trivial: non-exempt address.",
		[]string{"IPv6 ULA (fc00::/7) is neither asserted exempt nor non-exempt"},
		genC17, runC17)
	kit.Register("C17b",
		"rapid: server configurations supplying a public IP (NewServer over the simulated socket, InitNodeId with/without Conn, NoSecurity on/off, MakeDeterministicNodeID): the chosen ID verifies for the public IP under the reference rule. Non-trivial: non-exempt public IP.",
		[]string{"InitNodeId called directly with Conn == nil and NoSecurity is documented not to secure; excluded and counted"},
		genC17Cfg, runC17Cfg)
}
