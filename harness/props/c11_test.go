package props

// C11 — Announced peers come back from get_peers, and only those, per BEP 5/32.

import (
	"fmt"
	"net"
	"sort"

	"pgregory.net/rapid"

	"verifharness/kit"
	"verifharness/refmodel"
)

type C11Op struct {
	Kind    string // announce | badannounce | get
	IP      int    // index into the IP pool
	SrcPort int    // UDP source port
	IH      int    // index into the infohash pool
	Port    int    // announced port (announce)
	Implied bool
	// WithPort: when Implied, also send a `port` key (which must then be ignored).
	WithPort bool
	Want     []string
}

type C11Sc struct {
	Dual bool
	IPs  []kit.Hex
	IHs  []kit.Hex
	Ops  []C11Op
}

func genC11(t *rapid.T) C11Sc {
	sc := C11Sc{Dual: rapid.Bool().Draw(t, "dual")}
	nip := rapid.IntRange(1, 5).Draw(t, "nips")
	seen := map[string]bool{}
	for len(sc.IPs) < nip {
		s := genSrc(t, sc.Dual, "ip")
		k := string(refmodel.Unmap(s.NetIP()))
		if seen[k] {
			continue
		}
		seen[k] = true
		sc.IPs = append(sc.IPs, s.IP)
	}
	nih := rapid.IntRange(1, 3).Draw(t, "nihs")
	for i := 0; i < nih; i++ {
		ih := genBytesN(t, 20, "ih")
		ih[0] = byte(i) // distinct
		sc.IHs = append(sc.IHs, ih)
	}
	n := rapid.IntRange(2, deep(t, 30)).Draw(t, "nops")
	for i := 0; i < n; i++ {
		op := C11Op{IP: rapid.IntRange(0, nip-1).Draw(t, "op.ip"), SrcPort: genPort(t, "op.srcport"), IH: rapid.IntRange(0, nih-1).Draw(t, "op.ih")}
		switch r := rapid.IntRange(0, 9).Draw(t, "op.kind"); {
		case r < 5:
			op.Kind = "announce"
			op.Port = genPort(t, "op.port")
			op.Implied = rapid.IntRange(0, 2).Draw(t, "op.implied") == 0
			op.WithPort = rapid.Bool().Draw(t, "op.withport")
		case r < 6:
			op.Kind = "badannounce"
			op.Port = genPort(t, "op.port")
		default:
			op.Kind = "get"
			op.Want = genWant(t, "op.want")
		}
		sc.Ops = append(sc.Ops, op)
	}
	return sc
}

type endpoint struct {
	ip   string // unmapped IP bytes
	port int
}

func (e endpoint) String() string { return fmt.Sprintf("%v:%d", net.IP(e.ip), e.port) }

func runC11(sc C11Sc, c *kit.Case) *kit.Violation {
	sv := newSrv(SrvOpts{NodeID: [20]byte{3, 1, 4, 1, 5}, PeerStore: true})
	defer sv.Close()
	sender := [20]byte{8, 8, 8}
	// model: infohash index -> unmapped source IP -> endpoint
	model := map[int]map[string]endpoint{}
	tseq := 0
	nextT := func(p string) []byte { tseq++; return []byte(fmt.Sprintf("%s%d", p, tseq)) }
	reannounced, multiIP, mixedOneFamily := false, false, false

	getPeers := func(from *net.UDPAddr, ih int, want []string) (OutMsg, *kit.Violation) {
		tt := nextT("g")
		kv := []BKV{{K: "info_hash", V: bs(sc.IHs[ih])}}
		if len(want) > 0 {
			kv = append(kv, wantList(want))
		}
		outs, ok := sv.exchange(c, from, mkQuery(tt, "get_peers", mkArgs(sender, kv...)), true)
		if !ok {
			return OutMsg{}, nil
		}
		o, found := replyTo(outs, from, tt)
		if !found || len(outs) != 1 {
			return OutMsg{}, kit.Violatef("C11:get-peers-not-answered", "get_peers from %v got %d datagrams, none/ not only the reply", from, len(outs))
		}
		if o.Y != "r" {
			return OutMsg{}, kit.Violatef("C11:get-peers-not-answered", "get_peers from %v answered with %s", from, o.Describe())
		}
		return o, nil
	}

	for oi, op := range sc.Ops {
		ip := net.IP(sc.IPs[op.IP])
		from := &net.UDPAddr{IP: ip, Port: op.SrcPort}
		switch op.Kind {
		case "announce", "badannounce":
			// a token is bound to the IP only: obtain it from another port
			tokFrom := &net.UDPAddr{IP: ip, Port: 1 + (op.SrcPort+11)%65535}
			o, v := getPeers(tokFrom, op.IH, nil)
			if v != nil {
				return v
			}
			if c.Inconclusive != "" {
				return nil
			}
			r, _ := o.R()
			tk, ok := r.Get("token")
			if !ok || tk.Kind != 's' {
				return kit.Violatef("C11:no-token", "get_peers reply carries no token: %s", o.Describe())
			}
			tok := tk.S
			if op.Kind == "badannounce" {
				tok = tok + "x"
			}
			kv := []BKV{{K: "info_hash", V: bs(sc.IHs[op.IH])}, {K: "token", V: bstr(tok)}}
			if !op.Implied || op.WithPort {
				kv = append(kv, BKV{K: "port", V: bint(int64(op.Port))})
			}
			if op.Implied {
				kv = append(kv, BKV{K: "implied_port", V: bint(1)})
			}
			tt := nextT("a")
			outs, okb := sv.exchange(c, from, mkQuery(tt, "announce_peer", mkArgs(sender, kv...)), op.Kind == "announce")
			if !okb {
				return nil
			}
			if op.Kind == "badannounce" {
				c.Label("badannounce")
				continue // what must (not) happen here is C10's business; the model is unchanged
			}
			if o, found := replyTo(outs, from, tt); !found || o.Y != "r" {
				return kit.Violatef("C11:announce-not-accepted", "announce_peer from %v with a token just issued to its IP was not answered with a response (%d datagrams)", from, len(outs))
			}
			port := op.Port
			if op.Implied {
				port = op.SrcPort
			}
			key := string(refmodel.Unmap(ip))
			if model[op.IH] == nil {
				model[op.IH] = map[string]endpoint{}
			}
			if old, had := model[op.IH][key]; had && old.port != port {
				reannounced = true
				c.Label("re-announce-new-port")
			}
			model[op.IH][key] = endpoint{key, port}
			if len(model[op.IH]) >= 2 {
				multiIP = true
			}
			if op.Implied {
				c.Label("implied-port")
			}
		case "get":
			// repeat: the served set must be stable and complete every time
			o, v := getPeers(from, op.IH, op.Want)
			if v != nil {
				return v
			}
			if c.Inconclusive != "" {
				return nil
			}
			r, _ := o.R()
			if tk, ok := r.Get("token"); !ok || tk.Kind != 's' {
				return kit.Violatef("C11:no-token", "get_peers reply to %v (op %d) carries no token: %s", from, oi, o.Describe())
			}
			w4, w6, known := wants(op.Want, ip)
			got := map[endpoint]int{}
			if vals, ok := r.Get("values"); ok {
				if vals.Kind != 'l' {
					return kit.Violatef("C11:values-malformed", "`values` is not a list: %s", o.Describe())
				}
				for _, e := range vals.L {
					if e.Kind != 's' || (len(e.S) != 6 && len(e.S) != 18) {
						return kit.Violatef("C11:values-malformed", "`values` entry %q is not a 6- or 18-byte string: %s", e.S, o.Describe())
					}
					if known && len(e.S) == 6 && !w4 {
						return kit.Violatef("C11:bep32-family", "6-byte value sent to a requester (%v, want %v) that does not want IPv4: %s", from, op.Want, o.Describe())
					}
					if known && len(e.S) == 18 && !w6 {
						return kit.Violatef("C11:bep32-family", "18-byte value sent to a requester (%v, want %v) that does not want IPv6: %s", from, op.Want, o.Describe())
					}
					eip := refmodel.Unmap(net.IP([]byte(e.S[:len(e.S)-2])))
					ep := endpoint{string(eip), int(e.S[len(e.S)-2])<<8 | int(e.S[len(e.S)-1])}
					got[ep]++
				}
			}
			var modelEps []string
			for _, ep := range model[op.IH] {
				modelEps = append(modelEps, ep.String())
			}
			sort.Strings(modelEps)
			var gotKeys []endpoint
			for ep := range got {
				gotKeys = append(gotKeys, ep)
			}
			sort.Slice(gotKeys, func(i, j int) bool { return gotKeys[i].String() < gotKeys[j].String() })
			for _, ep := range gotKeys {
				if m, ok := model[op.IH][ep.ip]; !ok || m != ep {
					return kit.Violatef("C11:unannounced-endpoint", "get_peers for infohash #%d returned %v, which is not a currently announced endpoint of it (announced: %v)", op.IH, ep, modelEps)
				}
			}
			fam4, fam6 := false, false
			if known {
				var keys []string
				for k := range model[op.IH] {
					keys = append(keys, k)
				}
				sort.Strings(keys)
				for _, k := range keys {
					ep := model[op.IH][k]
					is4 := len(ep.ip) == 4
					if is4 {
						fam4 = true
					} else {
						fam6 = true
					}
					if (is4 && w4 || !is4 && w6) && got[ep] == 0 {
						return kit.Violatef("C11:announced-endpoint-missing", "get_peers for infohash #%d from %v (want %v) does not return the announced endpoint %v (announced: %v; reply %s)", op.IH, from, op.Want, ep, modelEps, o.Describe())
					}
				}
				if fam4 && fam6 && w4 != w6 {
					mixedOneFamily = true
					c.Label("mixed-store-one-family-want")
				}
			} else {
				c.Label("want-unknown-only")
			}
			c.Label(fmt.Sprintf("get-values-%d", bucketCount(len(got))))
		}
	}
	if (reannounced && multiIP) || mixedOneFamily {
		c.NonTrivial()
	}
	return nil
}

func init() {
	kit.Register("C11a",
		"rapid: histories over a node with the bundled in-memory peer store: accepted announce_peer (token obtained by a genuine get_peers from another port of the same IP; port 1..65535, implied_port on/off with and without a `port` key), announces with an invalid token, and get_peers with every want combination, from a pool of 1..5 IPv4/IPv6/v4-mapped source IPs (one representation per socket kind) over 1..3 infohashes. Oracle: reference map infohash -> source IP -> endpoint; every `values` entry is 6 or 18 bytes, of a family the requester wants, and equals a currently announced endpoint of that infohash (no stale port, no other infohash); every announced endpoint whose family the requester wants is present; every reply carries a token. Non-trivial: >= 2 IPs on one infohash plus a re-announce with a different port, or a mixed-family store queried with a one-family want.",
		[]string{"cross-family conversion of values (an IPv4 peer sent v4-mapped in 18 bytes to an n6 requester) is permitted, not required",
			"a want list naming neither n4 nor n6 leaves the wanted families open: only the nothing-unannounced clause is applied",
			"one IP representation per socket kind; same IP = same address after unmapping"},
		genC11, runC11)
}
