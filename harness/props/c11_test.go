package props

// C11 — Announced peers come back from get_peers, and only those, per BEP 5/32.

import (
	"fmt"
	"net"
	"sort"
	"time"

	"pgregory.net/rapid"

	"verifharness/kit"
	"verifharness/refmodel"
)

type C11Op struct {
	Kind    string // announce | badannounce | get | getburst | annburst | swarm
	IP      int    // index into the IP pool
	SrcPort int    // UDP source port
	IH      int    // index into the infohash pool
	Port    int    // announced port (announce)
	Implied bool
	// WithPort: when Implied, also send a `port` key (which must then be ignored).
	WithPort bool
	Want     []string
	// Burst: the members of a getburst / annburst; their datagrams are injected back to back and
	// answered concurrently, then judged together
	Burst []C11Op
	// Swarm: this many further hosts (synthetic IPv4 addresses outside the scenario's pool) announce the
	// infohash; afterwards one of them re-announces with another port
	Swarm int
}

type C11Sc struct {
	Dual bool
	IPs  []kit.Hex
	IHs  []kit.Hex
	Ops  []C11Op
}

func genC11(t *rapid.T) C11Sc {
	sc := C11Sc{Dual: rapid.Bool().Draw(t, "dual")}
	nip := 1 + uniformInt(t, 8, "nips")
	seen := map[string]bool{}
	for len(sc.IPs) < nip {
		s := genSrc(t, sc.Dual, "ip")
		k := string(refmodel.Unmap(s.NetIP()))
		if seen[k] {
			continue
		}
		seen[k] = true
		sc.IPs = append(sc.IPs, s.IP)
	}
	nih := rapid.IntRange(1, 6).Draw(t, "nihs")
	for i := 0; i < nih; i++ {
		ih := genBytesN(t, 20, "ih")
		ih[0] = byte(i) // distinct
		if i == 0 {
			switch uniformInt(t, 8, "ih.special") {
			case 0:
				ih = make(kit.Hex, 20) // the all-zero infohash is an infohash like any other
			case 1:
				for j := range ih {
					ih[j] = 0xff
				}
				ih[0] = 0
			}
		}
		sc.IHs = append(sc.IHs, ih)
	}
	n := rapid.IntRange(2, deep(t, 30)).Draw(t, "nops")
	for i := 0; i < n; i++ {
		op := C11Op{IP: rapid.IntRange(0, nip-1).Draw(t, "op.ip"), SrcPort: genPort(t, "op.srcport"), IH: rapid.IntRange(0, nih-1).Draw(t, "op.ih")}
		switch r := rapid.IntRange(0, 12).Draw(t, "op.kind"); {
		case r == 9 && uniformInt(t, 4, "op.swarm") == 0:
			// a popular torrent: far more announcers than any reply of the other ops ever holds
			op.Kind = "swarm"
			op.Swarm = []int{9, 65, 127, 128, 129, 130, 200, 257}[uniformInt(t, 8, "op.swarmsize")]
		case r == 10:
			// several requesters at once, for different infohashes and wants, each from its own endpoint
			op.Kind = "getburst"
			nb := 2 + uniformInt(t, 5, "op.nburst")
			for j := 0; j < nb; j++ {
				op.Burst = append(op.Burst, C11Op{Kind: "get", IP: uniformInt(t, nip, "b.ip"), SrcPort: 20000 + 7*j + uniformInt(t, 5, "b.port"), IH: uniformInt(t, nih, "b.ih"), Want: genWant(t, "b.want")})
			}
		case r >= 11:
			// announces from distinct IPs for one infohash, all in flight at once
			op.Kind = "annburst"
			if rapid.Bool().Draw(t, "b.fresh") {
				// an infohash nobody has announced or asked for yet: the burst holds its very first announces
				ih := genBytesN(t, 20, "b.freshih")
				ih[0] = byte(len(sc.IHs))
				sc.IHs = append(sc.IHs, ih)
				op.IH = len(sc.IHs) - 1
			}
			order := rapid.Permutation(seqInts(nip)).Draw(t, "b.ips")
			nb := 1 + uniformInt(t, nip, "op.nburst")
			for j := 0; j < nb; j++ {
				op.Burst = append(op.Burst, C11Op{Kind: "announce", IP: order[j], SrcPort: genPort(t, "b.srcport"), IH: op.IH, Port: genPort(t, "b.port"), Implied: uniformInt(t, 3, "b.implied") == 0})
			}
		case r < 5:
			op.Kind = "announce"
			op.Port = genPort(t, "op.port")
			op.Implied = rapid.IntRange(0, 2).Draw(t, "op.implied") == 0
			op.WithPort = rapid.Bool().Draw(t, "op.withport")
		case r < 6:
			op.Kind = "badannounce"
			op.Port = genPort(t, "op.port")
		default:
			op.Kind = "get"
			op.Want = genWant(t, "op.want")
		}
		sc.Ops = append(sc.Ops, op)
	}
	return sc
}

func seqInts(n int) []int {
	r := make([]int, n)
	for i := range r {
		r[i] = i
	}
	return r
}

type endpoint struct {
	ip   string // unmapped IP bytes
	port int
}

func (e endpoint) String() string { return fmt.Sprintf("%v:%d", net.IP(e.ip), e.port) }

func runC11(sc C11Sc, c *kit.Case) *kit.Violation {
	sv := newSrv(SrvOpts{NodeID: [20]byte{3, 1, 4, 1, 5}, PeerStore: true})
	defer sv.Close()
	sender := [20]byte{8, 8, 8}
	// model: infohash index -> unmapped source IP -> endpoint
	model := map[int]map[string]endpoint{}
	tseq := 0
	nextT := func(p string) []byte { tseq++; return []byte(fmt.Sprintf("%s%d", p, tseq)) }
	reannounced, multiIP, mixedOneFamily := false, false, false

	getPeers := func(from *net.UDPAddr, ih int, want []string) (OutMsg, *kit.Violation) {
		tt := nextT("g")
		kv := []BKV{{K: "info_hash", V: bs(sc.IHs[ih])}}
		if len(want) > 0 {
			kv = append(kv, wantList(want))
		}
		outs, ok := sv.exchange(c, from, mkQuery(tt, "get_peers", mkArgs(sender, kv...)), true)
		if !ok {
			return OutMsg{}, nil
		}
		o, found := replyTo(outs, from, tt)
		if !found || len(outs) != 1 {
			return OutMsg{}, kit.Violatef("C11:get-peers-not-answered", "get_peers from %v got %d datagrams, none/ not only the reply", from, len(outs))
		}
		if o.Y != "r" {
			return OutMsg{}, kit.Violatef("C11:get-peers-not-answered", "get_peers from %v answered with %s", from, o.Describe())
		}
		return o, nil
	}

	// judgeGet checks one get_peers reply against the model
	judgeGet := func(o OutMsg, from *net.UDPAddr, ihIdx int, want []string, oi int) *kit.Violation {
		ip := from.IP
		r, _ := o.R()
		if tk, ok := r.Get("token"); !ok || tk.Kind != 's' {
			return kit.Violatef("C11:no-token", "get_peers reply to %v (op %d) carries no token: %s", from, oi, o.Describe())
		}
		w4, w6, known := wants(want, ip)
		got := map[endpoint]int{}
		if vals, ok := r.Get("values"); ok {
			if vals.Kind != 'l' {
				return kit.Violatef("C11:values-malformed", "`values` is not a list: %s", o.Describe())
			}
			for _, e := range vals.L {
				if e.Kind != 's' || (len(e.S) != 6 && len(e.S) != 18) {
					return kit.Violatef("C11:values-malformed", "`values` entry %q is not a 6- or 18-byte string: %s", e.S, o.Describe())
				}
				if known && len(e.S) == 6 && !w4 {
					return kit.Violatef("C11:bep32-family", "6-byte value sent to a requester (%v, want %v) that does not want IPv4: %s", from, want, o.Describe())
				}
				if known && len(e.S) == 18 && !w6 {
					return kit.Violatef("C11:bep32-family", "18-byte value sent to a requester (%v, want %v) that does not want IPv6: %s", from, want, o.Describe())
				}
				eip := refmodel.Unmap(net.IP([]byte(e.S[:len(e.S)-2])))
				ep := endpoint{string(eip), int(e.S[len(e.S)-2])<<8 | int(e.S[len(e.S)-1])}
				got[ep]++
			}
		}
		var modelEps []string
		for _, ep := range model[ihIdx] {
			modelEps = append(modelEps, ep.String())
		}
		sort.Strings(modelEps)
		var gotKeys []endpoint
		for ep := range got {
			gotKeys = append(gotKeys, ep)
		}
		sort.Slice(gotKeys, func(i, j int) bool { return gotKeys[i].String() < gotKeys[j].String() })
		for _, ep := range gotKeys {
			if m, ok := model[ihIdx][ep.ip]; !ok || m != ep {
				return kit.Violatef("C11:unannounced-endpoint", "get_peers for infohash #%d from %v returned %v, which is not a currently announced endpoint of it (announced: %v)", ihIdx, from, ep, modelEps)
			}
		}
		fam4, fam6 := false, false
		if known {
			var keys []string
			for k := range model[ihIdx] {
				keys = append(keys, k)
			}
			sort.Strings(keys)
			for _, k := range keys {
				ep := model[ihIdx][k]
				is4 := len(ep.ip) == 4
				if is4 {
					fam4 = true
				} else {
					fam6 = true
				}
				if (is4 && w4 || !is4 && w6) && got[ep] == 0 {
					return kit.Violatef("C11:announced-endpoint-missing", "get_peers for infohash #%d from %v (want %v) does not return the announced endpoint %v (announced: %v; reply %s)", ihIdx, from, want, ep, modelEps, o.Describe())
				}
			}
			if fam4 && fam6 && w4 != w6 {
				mixedOneFamily = true
				c.Label("mixed-store-one-family-want")
			}
		} else {
			c.Label("want-unknown-only")
		}
		c.Label(fmt.Sprintf("get-values-%d", bucketCount(len(got))))
		return nil
	}
	// announceMsg builds an announce_peer and returns the endpoint it announces
	announceMsg := func(op C11Op, tok string, tt []byte) ([]byte, endpoint) {
		kv := []BKV{{K: "info_hash", V: bs(sc.IHs[op.IH])}, {K: "token", V: bstr(tok)}}
		if !op.Implied || op.WithPort {
			kv = append(kv, BKV{K: "port", V: bint(int64(op.Port))})
		}
		if op.Implied {
			kv = append(kv, BKV{K: "implied_port", V: bint(1)})
		}
		port := op.Port
		if op.Implied {
			port = op.SrcPort
		}
		return mkQuery(tt, "announce_peer", mkArgs(sender, kv...)), endpoint{string(refmodel.Unmap(net.IP(sc.IPs[op.IP]))), port}
	}
	record := func(ih int, ep endpoint) {
		if model[ih] == nil {
			model[ih] = map[string]endpoint{}
		}
		if old, had := model[ih][ep.ip]; had && old.port != ep.port {
			reannounced = true
			c.Label("re-announce-new-port")
		}
		model[ih][ep.ip] = ep
		if len(model[ih]) >= 2 {
			multiIP = true
		}
	}
	token := func(ip net.IP, srcPort, ih int) (string, *kit.Violation) {
		// a token is bound to the IP only: obtain it from another port
		tokFrom := &net.UDPAddr{IP: ip, Port: 1 + (srcPort+11)%65535}
		o, v := getPeers(tokFrom, ih, nil)
		if v != nil || c.Inconclusive != "" {
			return "", v
		}
		r, _ := o.R()
		tk, ok := r.Get("token")
		if !ok || tk.Kind != 's' {
			return "", kit.Violatef("C11:no-token", "get_peers reply carries no token: %s", o.Describe())
		}
		return tk.S, nil
	}
	burstSeen := false

	for oi, op := range sc.Ops {
		ip := net.IP(sc.IPs[op.IP])
		from := &net.UDPAddr{IP: ip, Port: op.SrcPort}
		switch op.Kind {
		case "announce", "badannounce":
			tok, v := token(ip, op.SrcPort, op.IH)
			if v != nil {
				return v
			}
			if c.Inconclusive != "" {
				return nil
			}
			if op.Kind == "badannounce" {
				tok = tok + "x"
			}
			tt := nextT("a")
			msg, ep := announceMsg(op, tok, tt)
			outs, okb := sv.exchange(c, from, msg, op.Kind == "announce")
			if !okb {
				return nil
			}
			if op.Kind == "badannounce" {
				c.Label("badannounce")
				continue // what must (not) happen here is C10's business; the model is unchanged
			}
			if o, found := replyTo(outs, from, tt); !found || o.Y != "r" {
				return kit.Violatef("C11:announce-not-accepted", "announce_peer from %v with a token just issued to its IP was not answered with a response (%d datagrams)", from, len(outs))
			}
			record(op.IH, ep)
			if op.Implied {
				c.Label("implied-port")
			}
		case "get":
			// repeat: the served set must be stable and complete every time
			o, v := getPeers(from, op.IH, op.Want)
			if v != nil {
				return v
			}
			if c.Inconclusive != "" {
				return nil
			}
			if v := judgeGet(o, from, op.IH, op.Want, oi); v != nil {
				return v
			}
		case "annburst":
			type pending struct {
				from *net.UDPAddr
				tt   []byte
				ep   endpoint
			}
			var ps []pending
			var msgs [][]byte
			for _, b := range op.Burst {
				bip := net.IP(sc.IPs[b.IP])
				tok, v := token(bip, b.SrcPort, b.IH)
				if v != nil {
					return v
				}
				if c.Inconclusive != "" {
					return nil
				}
				tt := nextT("ab")
				msg, ep := announceMsg(b, tok, tt)
				ps = append(ps, pending{&net.UDPAddr{IP: bip, Port: b.SrcPort}, tt, ep})
				msgs = append(msgs, msg)
			}
			mark := sv.C.NumOut()
			for i, p := range ps {
				sv.C.Inject(p.from, msgs[i])
			}
			if !sv.barrier(c) {
				return nil
			}
			answered := func() (int, string) {
				outs := outsFrom(sv.C, mark)
				n := 0
				missing := ""
				for _, p := range ps {
					if o, found := replyTo(outs, p.from, p.tt); found && o.Y == "r" {
						n++
					} else {
						missing = p.from.String()
					}
				}
				return n, missing
			}
			if n, _ := answered(); n != len(ps) {
				c.Label("grace-wait")
				waitFor(2*time.Second, func() bool { n, _ := answered(); return n == len(ps) })
			}
			if n, missing := answered(); n != len(ps) {
				return kit.Violatef("C11:announce-not-accepted", "of %d announce_peer queries in flight at once for infohash #%d, each with a token just issued to its IP, only %d were answered with a response (not %s)", len(ps), op.IH, n, missing)
			}
			_, fresh := model[op.IH]
			for _, p := range ps {
				record(op.IH, p.ep)
			}
			if len(ps) >= 2 {
				burstSeen = true
				c.Label(fmt.Sprintf("announce-burst-%d-first-for-infohash-%v", len(ps), !fresh))
			}
			// and they must all be served at once
			o, v := getPeers(&net.UDPAddr{IP: net.IP(sc.IPs[op.Burst[0].IP]), Port: 30000 + oi}, op.IH, []string{"n4", "n6"})
			if v != nil {
				return v
			}
			if c.Inconclusive != "" {
				return nil
			}
			if v := judgeGet(o, &net.UDPAddr{IP: net.IP(sc.IPs[op.Burst[0].IP]), Port: 30000 + oi}, op.IH, []string{"n4", "n6"}, oi); v != nil {
				return v
			}
		case "swarm":
			type member struct {
				from *net.UDPAddr
				tt   []byte
				tok  string
				ep   endpoint
			}
			ms := make([]*member, op.Swarm)
			mark := sv.C.NumOut()
			for j := range ms {
				ip := net.IP{10, 77, byte(j >> 8), byte(j)}
				if sc.Dual {
					ip = ip.To16()
				}
				ms[j] = &member{from: &net.UDPAddr{IP: ip, Port: 7000 + j}, tt: nextT("sg")}
				sv.C.Inject(ms[j].from, mkQuery(ms[j].tt, "get_peers", mkArgs(sender, BKV{K: "info_hash", V: bs(sc.IHs[op.IH])})))
			}
			if !sv.barrier(c) {
				return nil
			}
			outs := outsFrom(sv.C, mark)
			if len(outs) != len(ms) {
				waitFor(2*time.Second, func() bool { return len(outsFrom(sv.C, mark)) == len(ms) })
				outs = outsFrom(sv.C, mark)
			}
			for _, mb := range ms {
				o, found := replyTo(outs, mb.from, mb.tt)
				if !found || o.Y != "r" {
					return kit.Violatef("C11:get-peers-not-answered", "get_peers from %v (one of %d hosts asking at once) was not answered with a response", mb.from, len(ms))
				}
				r, _ := o.R()
				tk, ok := r.Get("token")
				if !ok || tk.Kind != 's' {
					return kit.Violatef("C11:no-token", "get_peers reply carries no token: %s", o.Describe())
				}
				mb.tok = tk.S
			}
			announceAll := func(which []*member, port func(j int) int) *kit.Violation {
				mark := sv.C.NumOut()
				for j, mb := range which {
					mb.tt = nextT("sa")
					p := port(j)
					mb.ep = endpoint{string(refmodel.Unmap(mb.from.IP)), p}
					sv.C.Inject(mb.from, mkQuery(mb.tt, "announce_peer", mkArgs(sender, BKV{K: "info_hash", V: bs(sc.IHs[op.IH])}, BKV{K: "port", V: bint(int64(p))}, BKV{K: "token", V: bstr(mb.tok)})))
				}
				if !sv.barrier(c) {
					return nil
				}
				n := func() int {
					outs := outsFrom(sv.C, mark)
					k := 0
					for _, mb := range which {
						if o, found := replyTo(outs, mb.from, mb.tt); found && o.Y == "r" {
							k++
						}
					}
					return k
				}
				if n() != len(which) {
					waitFor(2*time.Second, func() bool { return n() == len(which) })
				}
				if k := n(); k != len(which) {
					return kit.Violatef("C11:announce-not-accepted", "of %d announce_peer queries for infohash #%d, each with a token just issued to its IP, only %d were answered with a response", len(which), op.IH, k)
				}
				for _, mb := range which {
					record(op.IH, mb.ep)
				}
				return nil
			}
			if v := announceAll(ms, func(j int) int { return 20000 + j }); v != nil || c.Inconclusive != "" {
				return v
			}
			// one member moves to another port, a newcomer joins: both must be what get_peers says afterwards
			late := []*member{ms[len(ms)/2]}
			if v := announceAll(late, func(int) int { return 40000 + oi }); v != nil || c.Inconclusive != "" {
				return v
			}
			c.Label(fmt.Sprintf("swarm-%d", op.Swarm))
			burstSeen = true
			asker := &net.UDPAddr{IP: ms[0].from.IP, Port: 30000 + oi}
			o, v := getPeers(asker, op.IH, []string{"n4", "n6"})
			if v != nil {
				return v
			}
			if c.Inconclusive != "" {
				return nil
			}
			if v := judgeGet(o, asker, op.IH, []string{"n4", "n6"}, oi); v != nil {
				return v
			}
		case "getburst":
			type pending struct {
				from *net.UDPAddr
				tt   []byte
				b    C11Op
			}
			var ps []pending
			mark := sv.C.NumOut()
			for _, b := range op.Burst {
				p := pending{&net.UDPAddr{IP: net.IP(sc.IPs[b.IP]), Port: b.SrcPort}, nextT("gb"), b}
				kv := []BKV{{K: "info_hash", V: bs(sc.IHs[b.IH])}}
				if len(b.Want) > 0 {
					kv = append(kv, wantList(b.Want))
				}
				ps = append(ps, p)
				sv.C.Inject(p.from, mkQuery(p.tt, "get_peers", mkArgs(sender, kv...)))
			}
			if !sv.barrier(c) {
				return nil
			}
			all := func() bool {
				outs := outsFrom(sv.C, mark)
				for _, p := range ps {
					if _, found := replyTo(outs, p.from, p.tt); !found {
						return false
					}
				}
				return true
			}
			if !all() {
				c.Label("grace-wait")
				waitFor(2*time.Second, all)
			}
			outs := outsFrom(sv.C, mark)
			if len(outs) > len(ps) {
				return kit.Violatef("C11:get-peers-not-answered", "%d get_peers in flight at once caused %d datagrams", len(ps), len(outs))
			}
			distinctIH := map[int]bool{}
			for _, p := range ps {
				o, found := replyTo(outs, p.from, p.tt)
				if !found || o.Y != "r" {
					return kit.Violatef("C11:get-peers-not-answered", "get_peers from %v (one of %d in flight at once) was not answered with a response", p.from, len(ps))
				}
				if v := judgeGet(o, p.from, p.b.IH, p.b.Want, oi); v != nil {
					v.Msg = fmt.Sprintf("(one of %d get_peers in flight at once) ", len(ps)) + v.Msg
					return v
				}
				if len(model[p.b.IH]) > 0 {
					distinctIH[p.b.IH] = true
				}
			}
			if len(distinctIH) >= 2 {
				burstSeen = true
				c.Label("get-burst-over-2-populated-infohashes")
			}
		}
	}
	if burstSeen {
		c.NonTrivial()
	}
	if (reannounced && multiIP) || mixedOneFamily {
		c.NonTrivial()
	}
	return nil
}

func init() {
	kit.Register("C11a",
		"rapid: histories over a node with the bundled in-memory peer store: accepted announce_peer (token obtained by a genuine get_peers from another port of the same IP; port 1..65535, implied_port on/off with and without a `port` key), announces with an invalid token, and get_peers with every want combination, from a pool of 1..8 IPv4/IPv6/v4-mapped source IPs (one representation per socket kind) over 1..6 infohashes (the all-zero and all-ones infohash among them); bursts of 2..6 get_peers and of first announces for a fresh infohash injected back to back; swarms of 9..257 further hosts announcing one infohash, then a member changing its port. Oracle: reference map infohash -> source IP -> endpoint; every `values` entry is 6 or 18 bytes, of a family the requester wants, and equals a currently announced endpoint of that infohash (no stale port, no other infohash); every announced endpoint whose family the requester wants is present; every reply carries a token. Non-trivial: >= 2 IPs on one infohash plus a re-announce with a different port, or a mixed-family store queried with a one-family want.",
		[]string{"cross-family conversion of values (an IPv4 peer sent v4-mapped in 18 bytes to an n6 requester) is permitted, not required",
			"a want list naming neither n4 nor n6 leaves the wanted families open: only the nothing-unannounced clause is applied",
			"one IP representation per socket kind; same IP = same address after unmapping"},
		genC11, runC11)
}
