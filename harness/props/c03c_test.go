package props

// C03c — query completions that land in the run loop's unlock→select window (no lost wake-up).
//
// The lookup's run loop looks at its state under its lock, releases the lock and then blocks in a
// select until something changes. A completion that takes the lock in between must still wake it:
// otherwise the lookup sleeps with nothing in flight and never reports stalled. The VerifBeforeSelect
// hook lets the harness hold the run loop exactly there (while it is *not* offering the stalled
// signal, because queries are in flight), let the last queries complete, wait until their goroutines
// are gone, and release the loop: a stall report must follow.

import (
	"context"
	"fmt"
	"net/netip"
	"sync"
	"sync/atomic"
	"time"

	"github.com/anacrolix/generics"
	"pgregory.net/rapid"

	"github.com/anacrolix/dht/v2/int160"
	"github.com/anacrolix/dht/v2/krpc"
	"github.com/anacrolix/dht/v2/traversal"
	"github.com/anacrolix/dht/v2/types"

	"verifharness/kit"
	"verifharness/simnet"
)

type C03cSc struct {
	K, Alpha int
	Seeds    int
	// Early: how many of the first wave's queries complete before the window (the next one brings the
	// run loop to the window; the rest complete inside it). With Kick=false the loop is caught on its very
	// first pass, and every query of the first wave completes inside the window.
	Early int
	Kick  bool
	// Fanout: each window completion names this many new contacts (0 = the lookup is then exhausted)
	Fanout  int
	WithIDs bool
}

func genC03c(t *rapid.T) C03cSc {
	sc := C03cSc{K: 1 + uniformInt(t, 8, "k"), Alpha: 1 + uniformInt(t, 5, "alpha"), Seeds: 1 + uniformInt(t, 6, "seeds"),
		Kick: rapid.Bool().Draw(t, "kick"), Fanout: []int{0, 0, 1, 3}[uniformInt(t, 4, "fanout")], WithIDs: rapid.Bool().Draw(t, "withids")}
	sc.Early = uniformInt(t, 4, "early")
	return sc
}

func runC03c(sc C03cSc, c *kit.Case) *kit.Violation {
	c03bMu.Lock()
	defer c03bMu.Unlock()
	defer func() { traversal.VerifBeforeSelect = nil }()
	conn := simnet.New(nil) // only for its goroutine inspection
	wave := sc.Seeds
	if wave > sc.Alpha {
		wave = sc.Alpha
	}
	kick := sc.Kick && wave >= 2
	early := 0
	if kick {
		early = sc.Early
		if early > wave-2 {
			early = wave - 2
		}
	}
	var armed atomic.Bool
	parked := make(chan struct{}, 1)
	release := make(chan struct{})
	var theOp atomic.Pointer[traversal.Operation]
	traversal.VerifBeforeSelect = func(op *traversal.Operation, offeringStall bool) {
		if op != theOp.Load() || offeringStall || !armed.CompareAndSwap(true, false) {
			return
		}
		parked <- struct{}{}
		<-release
	}
	if !kick {
		armed.Store(true)
	}
	var mu sync.Mutex
	var holds []chan struct{} // per started query of the first wave
	started, returned := 0, 0
	open := false // after the window: every further query returns at once
	var target [20]byte
	target[0] = 0x77
	op := traversal.Start(traversal.OperationInput{
		Target: target, K: sc.K, Alpha: sc.Alpha,
		DoQuery: func(ctx context.Context, addr krpc.NodeAddr) traversal.QueryResult {
			mu.Lock()
			started++
			n := started
			h := make(chan struct{})
			if open {
				close(h)
			}
			holds = append(holds, h)
			mu.Unlock()
			<-h
			var id [20]byte
			id[0], id[18], id[19] = 0x80, byte(n>>8), byte(n)
			res := traversal.QueryResult{ResponseFrom: &krpc.NodeInfo{ID: id, Addr: addr}, ClosestData: "tok"}
			if n <= wave {
				for j := 0; j < sc.Fanout; j++ {
					var nid [20]byte
					nid[0], nid[17], nid[19] = 0x40, byte(n), byte(j)
					res.Nodes = append(res.Nodes, krpc.NodeInfo{ID: nid, Addr: krpc.NodeAddr{IP: []byte{10, 4, byte(n), byte(j + 1)}, Port: 2000 + j}})
				}
			}
			mu.Lock()
			returned++
			mu.Unlock()
			return res
		},
	})
	theOp.Store(op)
	releaseQuery := func(i int) {
		mu.Lock()
		h := holds[i]
		mu.Unlock()
		select {
		case <-h:
		default:
			close(h)
		}
	}
	cleanup := func() {
		mu.Lock()
		open = true
		hs := append([]chan struct{}(nil), holds...)
		mu.Unlock()
		for _, h := range hs {
			select {
			case <-h:
			default:
				close(h)
			}
		}
		select {
		case <-release:
		default:
			close(release)
		}
		op.Stop()
		select {
		case <-op.Stopped():
		case <-time.After(10 * time.Second):
		}
	}
	quiet := func(cond func() bool) bool {
		deadline := time.Now().Add(10 * time.Second)
		for time.Now().Before(deadline) {
			if cond() {
				if ok, _ := conn.AllBlocked(); ok && cond() {
					return true
				}
			}
			time.Sleep(100 * time.Microsecond)
		}
		return false
	}
	counts := func() (int, int) { mu.Lock(); defer mu.Unlock(); return started, returned }
	var seeds []types.AddrMaybeId
	for i := 0; i < sc.Seeds; i++ {
		ami := types.AddrMaybeId{Addr: krpc.NodeAddrPort{AddrPort: netip.AddrPortFrom(netip.AddrFrom4([4]byte{10, 3, 0, byte(i + 1)}), uint16(1000+i))}}
		if sc.WithIDs {
			var id [20]byte
			id[0], id[19] = 0x40, byte(i)
			ami.Id = generics.Some(int160.FromByteArray(id))
		}
		seeds = append(seeds, ami)
	}
	if kick {
		// an empty lookup first reports stalled; take that report so that the loop is asleep in a defined state
		select {
		case <-op.Stalled():
		case <-time.After(10 * time.Second):
			cleanup()
			c.Inconclusive = "empty lookup did not report stalled within 10 s"
			return nil
		}
	}
	op.AddNodes(seeds)
	if !quiet(func() bool { s, _ := counts(); return s == wave }) {
		cleanup()
		s, _ := counts()
		c.Inconclusive = fmt.Sprintf("first wave: %d of %d queries started within 10 s", s, wave)
		return nil
	}
	if kick {
		for i := 0; i < early; i++ {
			releaseQuery(i)
			if !quiet(func() bool { _, r := counts(); return r == i+1 }) {
				cleanup()
				c.Inconclusive = "an early completion did not settle within 10 s"
				return nil
			}
		}
		if s, _ := counts(); s != wave {
			// early completions named new contacts and the loop started further queries: the wave is no longer
			// what the scenario describes (Fanout > 0 with spare Alpha); fall through with what is there
			c.Label("wave-grew")
		}
		armed.Store(true)
		releaseQuery(early) // this completion sends the loop round, into the hook
	}
	select {
	case <-parked:
	case <-time.After(10 * time.Second):
		cleanup()
		c.Inconclusive = "run loop did not reach the hook within 10 s"
		return nil
	}
	// The run loop has released its lock and not yet blocked; queries are in flight, so it is not offering
	// the stalled signal. Now the remaining first-wave queries complete, and their goroutines finish.
	mu.Lock()
	inWindow := 0
	for i := range holds {
		select {
		case <-holds[i]:
		default:
			close(holds[i])
			inWindow++
		}
	}
	open = true
	mu.Unlock()
	if !quiet(func() bool { s, r := counts(); return r == s }) {
		cleanup()
		c.Inconclusive = "window completions did not settle within 10 s"
		return nil
	}
	close(release)
	c.Label(fmt.Sprintf("completions-in-window-%d", bucketCount(inWindow)))
	if inWindow > 0 {
		c.NonTrivial()
	}
	// every later query returns at once: the lookup must run dry and say so
	select {
	case <-op.Stalled():
	case <-time.After(3 * time.Second):
		s, _ := counts()
		if ok, who := conn.AllBlocked(); !ok {
			cleanup()
			c.Inconclusive = "no stall report yet and goroutines are runnable: " + who
			return nil
		}
		cleanup()
		return kit.Violatef("C03:lost-wakeup", "K=%d Alpha=%d, %d seeds: %d queries completed while the run loop was between releasing its lock and blocking (%d completed before); all %d started queries have returned, nothing is in flight, every goroutine is blocked, and the lookup has not reported stalled for 3 s", sc.K, sc.Alpha, sc.Seeds, inWindow, early, s)
	}
	cleanup()
	return nil
}

func init() {
	kit.Register("C03c",
		"rapid: lookups (K 1..8, Alpha 1..5, 1..6 seed contacts with or without IDs) whose run loop is held by the VerifBeforeSelect hook at the point where it has looked at its state under its lock (queries in flight, so no stall on offer), has released the lock and has not yet blocked; 0..3 queries of the first wave complete before that point, one completion sends the loop there (or it is caught on its first pass), and all remaining in-flight queries complete and their goroutines finish while it is held (each naming 0, 1 or 3 new contacts); then the loop is released and every later query returns at once. Oracle: the lookup reports stalled within 3 s (a run that has not while every goroutine is blocked has lost the wake-up). Non-trivial: at least one completion landed in the window.",
		[]string{"3 s of silence with every goroutine of the library blocked is taken as 'never': nothing is left that could wake the run loop"},
		genC03c, runC03c)
}
