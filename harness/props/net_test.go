package props

// SimNet: simulated remote nodes behind the fake socket. Every query the node under test writes is
// parsed with the harness's own bencode reader, logged, and answered synchronously (inside WriteTo,
// on the sender's goroutine) by the simulated peer that owns the destination address, if any.
// Whether an injected datagram will complete the transaction decides the virtual resend delay
// (simnet.Conn.ResendDelay): answered queries never time out, unanswered ones time out at once.

import (
	"fmt"
	"net"
	"sync"
	"time"

	"verifharness/refmodel"
	"verifharness/simnet"
)

type SimQuery struct {
	Seq    int // index in the socket's output log
	To     *net.UDPAddr
	M      OutMsg
	Method string
	T      string
	G      int64
}

func (q SimQuery) Arg(k string) (BV, bool) {
	a, ok := q.M.A()
	if !ok {
		return BV{}, false
	}
	return a.Get(k)
}

type SimReply struct {
	// From defaults to the queried address.
	From *net.UDPAddr
	Data []byte
}

type SimPeer struct {
	Addr   *net.UDPAddr
	ID     [20]byte
	Handle func(q SimQuery) []SimReply
}

// SimDelivered is one datagram a simulated peer sent back, with the harness's prediction of whether
// it completes the query it answers.
type SimDelivered struct {
	Q         SimQuery
	From      *net.UDPAddr
	Data      []byte
	Completes bool
}

type SimNet struct {
	sv        *Srv
	mu        sync.Mutex
	peers     map[string]*SimPeer
	log       []SimQuery
	delivered []SimDelivered
	// FailWrite, if set, can make the write fail (the datagram is logged as failed, no reply).
	FailWrite func(o simnet.Out, m OutMsg) error
	// Blocked reports sources whose datagrams the node will drop before processing (blocklist); a
	// reply from such a source cannot complete a query.
	Blocked func(ip net.IP) bool
	// Uncertain makes "will match" predictions produce a bounded real delay instead of one hour; used
	// by checks that inject malformed replies whose fate they do not need to predict exactly.
	Uncertain time.Duration
}

func newSimNet(sv *Srv) *SimNet {
	n := &SimNet{sv: sv, peers: map[string]*SimPeer{}}
	sv.C.OnWrite = n.onWrite
	return n
}

func (n *SimNet) Add(p *SimPeer) *SimPeer {
	n.mu.Lock()
	n.peers[p.Addr.String()] = p
	n.mu.Unlock()
	return p
}

func (n *SimNet) Peer(addr string) *SimPeer {
	n.mu.Lock()
	defer n.mu.Unlock()
	return n.peers[addr]
}

func (n *SimNet) Queries() []SimQuery {
	n.mu.Lock()
	defer n.mu.Unlock()
	return append([]SimQuery(nil), n.log...)
}

func (n *SimNet) Delivered(from int) []SimDelivered {
	n.mu.Lock()
	defer n.mu.Unlock()
	if from > len(n.delivered) {
		from = len(n.delivered)
	}
	return append([]SimDelivered(nil), n.delivered[from:]...)
}

func (n *SimNet) NumDelivered() int {
	n.mu.Lock()
	defer n.mu.Unlock()
	return len(n.delivered)
}

func (n *SimNet) NumQueries() int {
	n.mu.Lock()
	defer n.mu.Unlock()
	return len(n.log)
}

// willComplete predicts whether the node will accept data from `from` as the reply to the query
// with transaction ID t sent to `to`: same address string, non-zero port, fits the read buffer,
// decodes as a KRPC message that is not a query, echoes t. (The library's decoder is used here only
// to predict a time-out, never as an oracle.)
func (n *SimNet) willComplete(from, to *net.UDPAddr, data []byte, t string) bool {
	if from.String() != to.String() || from.Port == 0 || len(data) >= 0x10000 || len(data) < 2 || data[0] != 'd' {
		return false
	}
	if n.Blocked != nil && n.Blocked(from.IP) {
		return false
	}
	m, err := decodeMsg(data)
	if err != nil {
		return false
	}
	return m.Y != "q" && m.T == t
}

func (n *SimNet) onWrite(o simnet.Out) (bool, error) {
	m := parseOut(o)
	if n.FailWrite != nil {
		if err := n.FailWrite(o, m); err != nil {
			return false, err
		}
	}
	if !m.OK || m.Y != "q" || o.To == nil {
		return false, nil
	}
	q := SimQuery{Seq: o.Seq, To: o.To, M: m, Method: m.Q, T: m.T, G: o.G}
	n.mu.Lock()
	n.log = append(n.log, q)
	p := n.peers[o.To.String()]
	n.mu.Unlock()
	if p == nil || p.Handle == nil {
		return false, nil
	}
	matched := false
	for _, r := range p.Handle(q) {
		from := r.From
		if from == nil {
			from = o.To
		}
		comp := n.willComplete(from, o.To, r.Data, m.T)
		if comp {
			matched = true
		}
		n.mu.Lock()
		n.delivered = append(n.delivered, SimDelivered{Q: q, From: from, Data: r.Data, Completes: comp})
		n.mu.Unlock()
		n.sv.C.Inject(from, r.Data)
	}
	return matched, nil
}

// installUncertain makes predicted matches wait d of real time instead of one virtual hour.
func (n *SimNet) installUncertain(d time.Duration) {
	n.sv.C.DelayHook = func(gid int64, matched bool) time.Duration {
		if matched {
			return d
		}
		return 0
	}
}

// ---- reply builders -------------------------------------------------------------------------------

// compactNodes encodes (id, addr) pairs in 26-byte (v4) or 38-byte (v6) form.
func compactNodes(v6 bool, nodes []SimContact) string {
	var b []byte
	for _, c := range nodes {
		ip := c.Addr.IP.To4()
		if v6 {
			ip = c.Addr.IP.To16()
		}
		if ip == nil {
			continue
		}
		b = append(b, c.ID[:]...)
		b = append(b, ip...)
		b = append(b, byte(c.Addr.Port>>8), byte(c.Addr.Port))
	}
	return string(b)
}

type SimContact struct {
	ID   [20]byte
	Addr *net.UDPAddr
}

func (c SimContact) String() string { return fmt.Sprintf("%x@%v", c.ID[:4], c.Addr) }

// splitFamilies separates contacts by address family (v4-mapped counts as IPv4).
func splitFamilies(cs []SimContact) (v4, v6 []SimContact) {
	for _, c := range cs {
		if c.Addr.IP.To4() != nil {
			v4 = append(v4, c)
		} else {
			v6 = append(v6, c)
		}
	}
	return
}

// stdReturn builds an `r` dictionary with id and optional nodes/nodes6/token.
func stdReturn(id [20]byte, nodes []SimContact, token *string) BV {
	d := []BKV{{K: "id", V: bs(id[:])}}
	v4, v6 := splitFamilies(nodes)
	if len(v4) > 0 {
		d = append(d, BKV{K: "nodes", V: bstr(compactNodes(false, v4))})
	}
	if len(v6) > 0 {
		d = append(d, BKV{K: "nodes6", V: bstr(compactNodes(true, v6))})
	}
	if token != nil {
		d = append(d, BKV{K: "token", V: bstr(*token)})
	}
	return BV{Kind: 'd', D: d}
}

// friendlyNet adds n well-behaved simulated nodes (addresses 51.x.y.z:5000+i, IDs derived from i):
// every query is answered with the node's ID; find_node / get_peers / get replies name up to 8 of the
// other nodes and carry a token; silent(i) lets a scenario mute individual nodes.
type friendly struct {
	Addrs []*net.UDPAddr
	IDs   [][20]byte
	// Value, if set, is an encoded immutable BEP 44 value every node holds: get replies carry it
	Value string
	// Mapped: the nodes are known by the 16-byte (v4-mapped) form of their IPv4 address and name each
	// other in nodes6 in that form, as a dual-stack peer does
	Mapped bool
	// WriteError: announce_peer and put are answered with a KRPC error (203) instead of a response
	WriteError bool
}

func friendlyAddr(i int) *net.UDPAddr {
	return &net.UDPAddr{IP: net.IP{51, 3, byte(i / 200), byte(1 + i%200)}, Port: 5000 + i}
}

func friendlyID(i int) (id [20]byte) {
	id[0], id[1], id[2], id[19] = byte(37*i+1), byte(i), 0xf1, byte(i)
	return
}

func addFriendlyNet(n1 *SimNet, n int, silent func(i int, q SimQuery) bool) *friendly {
	f := &friendly{}
	for i := 0; i < n; i++ {
		f.Addrs = append(f.Addrs, friendlyAddr(i))
		f.IDs = append(f.IDs, friendlyID(i))
	}
	for i := 0; i < n; i++ {
		i := i
		n1.Add(&SimPeer{Addr: f.Addrs[i], ID: f.IDs[i], Handle: func(q SimQuery) []SimReply {
			if silent != nil && silent(i, q) {
				return nil
			}
			t := []byte(q.T)
			switch q.Method {
			case "find_node", "get_peers", "get":
				var cs []SimContact
				for j := 1; j <= 8 && j < n; j++ {
					k := (i + j) % n
					cs = append(cs, SimContact{f.IDs[k], f.Addrs[k]})
				}
				tok := fmt.Sprintf("ftok%d", i)
				r := stdReturn(f.IDs[i], cs, &tok)
				if f.Mapped {
					var b []byte
					for _, c := range cs {
						b = append(b, c.ID[:]...)
						b = append(b, c.Addr.IP.To16()...)
						b = append(b, byte(c.Addr.Port>>8), byte(c.Addr.Port))
					}
					r = r.Del("nodes").Set("nodes6", bstr(string(b)))
				}
				if f.Value != "" && q.Method == "get" {
					v, _, _ := refmodel.Parse([]byte(f.Value))
					r = r.Set("v", v)
				}
				return []SimReply{{Data: mkResponse(t, r)}}
			case "announce_peer", "put":
				if f.WriteError {
					return []SimReply{{Data: mkError(t, 203, "bad token")}}
				}
				return []SimReply{{Data: mkResponse(t, stdReturn(f.IDs[i], nil, nil))}}
			default:
				return []SimReply{{Data: mkResponse(t, stdReturn(f.IDs[i], nil, nil))}}
			}
		}})
	}
	return f
}
