package props

// The routing-table machine: one history generator and executor carrying the oracles of
//   C05 (the table is always a well-formed Kademlia table, and the API agrees with it),
//   C06 (only directly verified contacts enter; good ones are never evicted; eligible senders are admitted),
//   C09 (find_node / get_peers / get replies list only good contacts, nearest buckets first, right family).
// Each check registers the same executor with its own generator bias and reports only its own clauses.

import (
	"bytes"
	"context"
	"fmt"
	"net"
	"sort"
	"strings"
	"time"

	"github.com/anacrolix/torrent/iplist"
	"pgregory.net/rapid"

	dht "github.com/anacrolix/dht/v2"
	"github.com/anacrolix/dht/v2/int160"
	"github.com/anacrolix/dht/v2/krpc"

	"verifharness/kit"
	"verifharness/refmodel"
	"verifharness/simnet"
)

type TPeer struct {
	IP    kit.Hex
	Port  int
	ID    kit.Hex
	Alive bool  // answers queries the node sends it when no scripted outcome applies
	Lists []int // neighbours it names when it answers find_node (hearsay for the node)
}

func (p TPeer) UDP() *net.UDPAddr {
	return &net.UDPAddr{IP: net.IP(append([]byte(nil), p.IP...)), Port: p.Port}
}

type TOp struct {
	Kind    string // Q | P | U | H | Add | Age | QP | Probe | TM | PBlock (a ping whose answer arrives after its sender was blocklisted) | PCancel (a query whose answer arrives after its context was cancelled and the call returned)
	Peer    int
	Method  string
	RO      bool
	IDKind  string // own | zero | root  (ID a query sender / Add argument presents)
	Outcome string // answer | other-id | root-id | zero-id | other-port | other-t | error | ro | silent
	Alt     int
	AgeMin  int
	K       int
	AltRep  bool
	// Probe
	TargetKind string // root | entry | near-entry | bucket | random
	TargetTail kit.Hex
	TBucket    int
	Want       []string
	SrcV6      bool
	Decoy      string // absent | other : what the method's *other* ID field holds
	// FromEntry: the probe comes from the address, and under the ID, of a contact that is in the table
	FromEntry bool
	// AnnFam (get_peers probes of histories with a peer store): "" | v4 | v6 - before the probe, a peer of
	// that family announces itself for the probed infohash
	AnnFam string
}

type TableSc struct {
	Root     kit.Hex
	Security bool
	Dual     bool
	Peers    []TPeer
	Blocked  []int
	Ops      []TOp
	// PeerStore: the node has the bundled peer store (C09 histories only)
	PeerStore bool
	// Hook: "" | allow | veto - an OnQuery hook that lets every query through / keeps every query to
	// itself (the sender of a kept query is still a sender: C06's admission rule does not depend on it)
	Hook string
}

// ---- generator ----------------------------------------------------------------------------------------

var tableAges = []int{1, 14, 15, 16, 60, 600}

func genTable(t *rapid.T, bias string) TableSc {
	sc := TableSc{Root: genBytesN(t, 20, "root"), Dual: rapid.Bool().Draw(t, "dual")}
	if arr20(sc.Root) == ([20]byte{}) {
		sc.Root[19] = 1 // an all-zero NodeId means "generate one" to the library (shrinking tends to produce it)
	}
	sc.Security = rapid.IntRange(0, 3).Draw(t, "security") == 0
	root := arr20(sc.Root)
	nhot := rapid.IntRange(1, 2).Draw(t, "nhot")
	var hot []int
	for i := 0; i < nhot; i++ {
		hot = append(hot, rapid.SampledFrom([]int{0, 0, 1, 2, 3, 7, 8, 9, 80, 158, 159}).Draw(t, "hot"))
	}
	np := 10 + uniformInt(t, deep(t, 30), "npeers")
	usedAddr := map[string]bool{}
	for i := 0; i < np; i++ {
		var p TPeer
		sameHost := -1
		// address
		switch k := rapid.IntRange(0, 9).Draw(t, "p.addrkind"); {
		case k == 0 && i > 0: // same address as an earlier peer, other ID
			q := sc.Peers[rapid.IntRange(0, i-1).Draw(t, "p.cloneaddr")]
			p.IP, p.Port = q.IP, q.Port
		case k == 9 && i > 0: // another port of an earlier peer's IP, usually under that peer's ID
			j := rapid.IntRange(0, i-1).Draw(t, "p.clonehost")
			q := sc.Peers[j]
			p.IP, p.Port = q.IP, 1+(q.Port+uniformInt(t, 3, "p.portdelta"))%65535
			if uniformInt(t, 3, "p.samehostid") > 0 {
				sameHost = j
			}
		case k <= 2 && sc.Dual: // genuine IPv6
			ip := net.ParseIP("2001:db8::").To16()
			ip[14], ip[15] = byte(i>>8), byte(i+1)
			switch rapid.IntRange(0, 5).Draw(t, "p.v6ll") {
			case 0:
				ip[0], ip[1] = 0xfe, 0x80
			case 1: // unique-local: private in name, but not exempt from BEP 42
				ip[0], ip[1] = 0xfd, 0x12
			case 2:
				ip[0], ip[1] = 0xfc, 0x00
			}
			p.IP, p.Port = kit.Hex(ip), genPort(t, "p.port")
		case k <= 5: // private IPv4 (exempt from BEP 42)
			ip := net.IP{10, 0, byte(i >> 8), byte(i + 1)}
			p.IP, p.Port = kit.Hex(ip), genPort(t, "p.port")
		default: // public IPv4
			ip := net.IP{byte(rapid.SampledFrom([]int{1, 5, 88, 200}).Draw(t, "p.net")), 7, byte(i >> 8), byte(i + 1)}
			p.IP, p.Port = kit.Hex(ip), genPort(t, "p.port")
		}
		if sc.Dual && len(p.IP) == 4 {
			p.IP = kit.Hex(net.IP(p.IP).To16())
		}
		_ = usedAddr
		// ID
		var id [20]byte
		switch k := rapid.IntRange(0, 19).Draw(t, "p.idkind"); {
		case k == 0 && i > 0:
			id = arr20(sc.Peers[rapid.IntRange(0, i-1).Draw(t, "p.cloneid")].ID)
		case k == 1:
			id = genRandID(t, "p.id")
		case k == 2:
			id = refmodel.WithPrefix(root, genPrefixLen(t, "p.cpl"), genRandID(t, "p.id"))
		default:
			id = refmodel.WithPrefix(root, hot[rapid.IntRange(0, len(hot)-1).Draw(t, "p.hot")], genRandID(t, "p.id"))
		}
		if sc.Security && !refmodel.Bep42Exempt(net.IP(p.IP)) && rapid.IntRange(0, 2).Draw(t, "p.secure") > 0 {
			id = refmodel.Bep42Secure(id, net.IP(p.IP))
		}
		if sameHost >= 0 {
			id = arr20(sc.Peers[sameHost].ID)
		}
		p.ID = kit.Hex(id[:])
		p.Alive = rapid.IntRange(0, 3).Draw(t, "p.alive") > 0
		nl := rapid.IntRange(0, 3).Draw(t, "p.nlists")
		for j := 0; j < nl; j++ {
			p.Lists = append(p.Lists, rapid.IntRange(0, np-1).Draw(t, "p.list"))
		}
		sc.Peers = append(sc.Peers, p)
	}
	if (bias == "c06" || bias == "c05" && uniformInt(t, 3, "blocklist.c05") == 0) && rapid.Bool().Draw(t, "blocklist") {
		nb := rapid.IntRange(1, 3).Draw(t, "nblocked")
		for i := 0; i < nb; i++ {
			sc.Blocked = append(sc.Blocked, rapid.IntRange(0, np-1).Draw(t, "blocked"))
		}
	}
	peer := func(label string) int { return uniformInt(t, np, label) }
	outcome := func() string {
		return pick(t, "op.outcome", "answer", "answer", "answer", "answer", "answer", "answer", "other-id", "other-port", "other-t", "error", "ro", "silent", "root-id", "zero-id")
	}
	probe := func() TOp {
		op := TOp{Kind: "Probe", Method: rapid.SampledFrom([]string{"find_node", "find_node", "get_peers", "get"}).Draw(t, "op.method"),
			TargetKind: rapid.SampledFrom([]string{"root", "entry", "near-entry", "near-entry", "bucket", "bucket", "random"}).Draw(t, "op.tkind"),
			TargetTail: genBytesN(t, 20, "op.ttail"), TBucket: rapid.SampledFrom(append([]int{0, 1, 2, 4, 159}, hot...)).Draw(t, "op.tbucket"),
			K: rapid.IntRange(0, 63).Draw(t, "op.k"), Want: genWant(t, "op.want"), SrcV6: rapid.Bool().Draw(t, "op.srcv6"),
			Decoy: rapid.SampledFrom([]string{"absent", "other"}).Draw(t, "op.decoy"), RO: rapid.Bool().Draw(t, "op.ro"), FromEntry: uniformInt(t, 4, "op.fromentry") == 0, AnnFam: pick(t, "op.annfam", "", "", "v4", "v6")}
		return op
	}
	nops := 10 + uniformInt(t, deep(t, 70), "nops")
	for i := 0; i < nops; i++ {
		var op TOp
		r := uniformInt(t, 100, "op.kind")
		if bias == "c09" {
			// build-up first (responses make good entries), probes interleaved
			switch {
			case r < 30:
				// a ping or (1 in 3) a find_node of the node's own: both are answered, both are liveness evidence
				op = TOp{Kind: pick(t, "op.pkind", "P", "P", "H"), Peer: peer("op.peer"), Outcome: "answer", Alt: peer("op.alt"), AltRep: uniformInt(t, 4, "op.altrep") == 0}
			case r < 38:
				op = TOp{Kind: "P", Peer: peer("op.peer"), Outcome: outcome(), Alt: peer("op.alt"), AltRep: uniformInt(t, 4, "op.altrep") == 0}
			case r < 50:
				op = TOp{Kind: "Q", Peer: peer("op.peer"), Method: "ping", IDKind: "own", RO: uniformInt(t, 4, "op.ro") == 0}
			case r < 56:
				op = TOp{Kind: "Age", AgeMin: rapid.SampledFrom(tableAges).Draw(t, "op.age")}
			case r < 64:
				op = TOp{Kind: "QP", K: rapid.IntRange(0, 63).Draw(t, "op.k"), Outcome: rapid.SampledFrom([]string{"silent", "silent", "answer", "error"}).Draw(t, "op.qpo")}
			case r < 68:
				op = TOp{Kind: "Add", Peer: peer("op.peer"), IDKind: "own"}
			default:
				op = probe()
			}
		} else {
			switch {
			case r < 34:
				op = TOp{Kind: "Q", Peer: peer("op.peer"), Method: rapid.SampledFrom([]string{"ping", "find_node", "get_peers", "announce_peer", "nonsense"}).Draw(t, "op.method"),
					RO: rapid.IntRange(0, 5).Draw(t, "op.ro") == 0, IDKind: rapid.SampledFrom([]string{"own", "own", "own", "own", "own", "own", "zero", "root"}).Draw(t, "op.idkind")}
			case r < 52:
				op = TOp{Kind: "P", Peer: peer("op.peer"), Outcome: outcome(), Alt: peer("op.alt"), AltRep: uniformInt(t, 4, "op.altrep") == 0}
			case r < 58:
				op = TOp{Kind: "H", Peer: peer("op.peer"), Outcome: outcome(), Alt: peer("op.alt"), AltRep: uniformInt(t, 4, "op.altrep") == 0}
			case r < 62:
				op = TOp{Kind: "U", Peer: peer("op.peer")}
			case r < 70:
				op = TOp{Kind: "Add", Peer: peer("op.peer"), IDKind: rapid.SampledFrom([]string{"own", "own", "own", "own", "zero", "root"}).Draw(t, "op.idkind"), AltRep: rapid.IntRange(0, 2).Draw(t, "op.altrep") == 0}
			case r < 80:
				op = TOp{Kind: "Age", AgeMin: rapid.SampledFrom(tableAges).Draw(t, "op.age")}
			case r < 82 && bias == "c06":
				op = TOp{Kind: "PBlock", Peer: peer("op.peer")}
			case r < 84 && bias == "c06":
				op = TOp{Kind: "PCancel", Peer: peer("op.peer")}
			case r < 95:
				op = TOp{Kind: "QP", K: rapid.IntRange(0, 63).Draw(t, "op.k"), Outcome: pick(t, "op.qpo", "silent", "silent", "silent", "answer", "answer", "error", "other-id", "root-id", "zero-id"), Alt: peer("op.alt")}
			default:
				op = probe()
			}
		}
		sc.Ops = append(sc.Ops, op)
	}
	if bias == "c09" {
		sc.PeerStore = uniformInt(t, 3, "peerstore") == 0
	}
	if bias == "c06" {
		sc.Hook = pick(t, "hook", "", "", "", "allow", "veto")
		if sc.Hook == "veto" {
			// a vetoing node answers nothing: probes have nothing to judge
			for i := range sc.Ops {
				if sc.Ops[i].Kind == "Probe" {
					sc.Ops[i] = TOp{Kind: "Q", Peer: sc.Ops[i].K % np, Method: "find_node", IDKind: "own"}
				}
			}
		}
	}
	if bias != "c09" && rapid.IntRange(0, 5).Draw(t, "tm") == 0 {
		sc.Ops = append(sc.Ops, TOp{Kind: "TM"})
	}
	return sc
}

// ---- reference classification ----------------------------------------------------------------------------

type tableRef struct {
	root     [20]byte
	security bool
}

func (r tableRef) bad(e dht.VerifEntry) bool {
	if e.ID == r.root || e.ID == ([20]byte{}) {
		return true
	}
	if r.security && !refmodel.Bep42Exempt(e.IP) && !refmodel.Bep42Match(e.ID, e.IP) {
		return true
	}
	return e.FailedLastQuestionablePing
}

const min15 = 15 * time.Minute

func (r tableRef) good(e dht.VerifEntry, now time.Time) bool {
	if r.bad(e) || e.LastGotResponse.IsZero() {
		return false
	}
	if now.Sub(e.LastGotResponse) < min15 {
		return true
	}
	return !e.LastGotQuery.IsZero() && now.Sub(e.LastGotQuery) < min15
}

// entryModel is the harness's own record of the liveness evidence for one (ID, address): when (in
// virtual time: real time is negligible against the minute-grained ageing steps) the node last heard a
// query / a completing response from it, and whether its last questionable-node ping failed. It is
// maintained from the events the harness itself produced, never from the table's own fields.
type entryModel struct {
	lastQ, lastR time.Duration
	hasQ, hasR   bool
	failed       bool
}

type entryKey struct {
	id   [20]byte
	addr string
}

func keyOf(e dht.VerifEntry) entryKey { return entryKey{e.ID, e.Addr} }

func indexEntries(s dht.VerifTableSnapshot) map[entryKey]dht.VerifEntry {
	m := make(map[entryKey]dht.VerifEntry, len(s.Entries))
	for _, e := range s.Entries {
		m[keyOf(e)] = e
	}
	return m
}

func bucketOf(root, id [20]byte) int { return refmodel.CommonPrefixLen(root, id) }

// ---- events observed during one op ------------------------------------------------------------------------

type tev struct {
	kind    string // query | response | add | failping
	addr    string
	ip      net.IP
	id      [20]byte
	hasID   bool
	ro      bool
	blocked bool
}

type blockSet struct{ ips []net.IP }

func (b *blockSet) Lookup(ip net.IP) (iplist.Range, bool) {
	for _, x := range b.ips {
		if x.Equal(ip) {
			return iplist.Range{First: x, Last: x, Description: "verif"}, true
		}
	}
	return iplist.Range{}, false
}
func (b *blockSet) NumRanges() int { return len(b.ips) }

type tableMachine struct {
	sc      TableSc
	c       *kit.Case
	clause  string
	sv      *Srv
	net     *SimNet
	ref     tableRef
	root    [20]byte
	blocked *blockSet
	// one-shot scripted outcome per destination address
	script map[string]TOp
	viol   *kit.Violation
	tseq   int
	// PBlock: the reply a peer would have sent, kept back by the harness
	heldReply func()
	// extraEvs: further events a probe caused (an announcer's queries)
	extraEvs []tev
	// statistics for the non-triviality rules
	fullBucketNewcomer, offeredIneligible, droppedEntry, ninthInsert bool
	probesNontrivial                                                 bool
	// (address, ID) pairs from which a response completing one of the node's own queries was delivered
	answered map[entryKey]bool
	// independent liveness model (virtual clock); modelValid is false after a multi-event step
	model      map[entryKey]*entryModel
	vnow       time.Duration
	modelValid bool
}

// isBad / isGood: the BEP 5 classification from the harness's own model of the evidence (falling back
// on the raw stored timestamps only after the multi-event TableMaintainer step).
func (m *tableMachine) isBad(e dht.VerifEntry) bool {
	if !m.modelValid {
		return m.ref.bad(e)
	}
	if e.ID == m.root || e.ID == ([20]byte{}) {
		return true
	}
	if m.sc.Security && !refmodel.Bep42Exempt(e.IP) && !refmodel.Bep42Match(e.ID, e.IP) {
		return true
	}
	em := m.model[keyOf(e)]
	return em != nil && em.failed
}

func (m *tableMachine) isGood(e dht.VerifEntry) bool {
	if !m.modelValid {
		return m.ref.good(e, time.Now())
	}
	if m.isBad(e) {
		return false
	}
	em := m.model[keyOf(e)]
	if em == nil || !em.hasR {
		return false
	}
	if m.vnow-em.lastR < min15 {
		return true
	}
	return em.hasQ && m.vnow-em.lastQ < min15
}

func (m *tableMachine) everResponded(e dht.VerifEntry) bool {
	if !m.modelValid {
		return !e.LastGotResponse.IsZero()
	}
	em := m.model[keyOf(e)]
	return em != nil && em.hasR
}

// updateModel applies one step's events to the liveness model (called after the step's checks).
func (m *tableMachine) updateModel(post dht.VerifTableSnapshot, evs []tev, op TOp) {
	if op.Kind == "TM" {
		m.modelValid = false
		return
	}
	if op.Kind == "Age" {
		m.vnow += time.Duration(op.AgeMin) * time.Minute
	}
	postIdx := indexEntries(post)
	for _, ev := range evs {
		if !ev.hasID || ev.blocked {
			continue
		}
		k := entryKey{ev.id, ev.addr}
		if _, in := postIdx[k]; !in {
			continue
		}
		em := m.model[k]
		if em == nil {
			em = &entryModel{}
			m.model[k] = em
		}
		switch ev.kind {
		case "query":
			em.lastQ, em.hasQ = m.vnow, true
		case "response":
			em.lastR, em.hasR, em.failed = m.vnow, true, false
		case "failping":
			em.failed = true
		}
	}
	for k := range m.model {
		if _, in := postIdx[k]; !in {
			delete(m.model, k)
		}
	}
	for k := range postIdx {
		if m.model[k] == nil {
			m.model[k] = &entryModel{}
		}
	}
}

func (m *tableMachine) report(key, format string, a ...any) {
	if m.viol != nil {
		return
	}
	if !strings.HasPrefix(key, m.clause+":") {
		return // another check's clause; that check reports it under its own generator bias
	}
	m.viol = kit.Violatef(key, format, a...)
}

func (m *tableMachine) peerID(i int) [20]byte { return arr20(m.sc.Peers[i].ID) }

func (m *tableMachine) isBlocked(ip net.IP) bool {
	if m.blocked == nil {
		return false
	}
	_, ok := m.blocked.Lookup(ip)
	return ok
}

// handle is the simulated peer behaviour: scripted outcome if one is pending for this address,
// otherwise answer (own ID, naming its neighbours) when alive.
func (m *tableMachine) handle(i int) func(q SimQuery) []SimReply {
	return func(q SimQuery) []SimReply {
		p := m.sc.Peers[i]
		addr := p.UDP()
		op, scripted := m.script[addr.String()]
		if scripted {
			delete(m.script, addr.String())
		} else {
			// several peers may share one address: the last registered answers for it
			if !p.Alive {
				return nil
			}
			op = TOp{Outcome: "answer", Peer: i}
		}
		id := m.peerID(op.Peer)
		var contacts []SimContact
		if q.Method == "find_node" || q.Method == "get_peers" || q.Method == "get" {
			for _, l := range m.sc.Peers[op.Peer].Lists {
				contacts = append(contacts, SimContact{m.peerID(l), m.sc.Peers[l].UDP()})
			}
		}
		t := []byte(q.T)
		switch op.Outcome {
		case "hold":
			data := mkResponse(t, stdReturn(id, contacts, nil))
			m.heldReply = func() { m.sv.C.Inject(addr, data) }
			return nil
		case "silent":
			return nil
		case "answer":
			return []SimReply{{Data: mkResponse(t, stdReturn(id, contacts, nil))}}
		case "other-id":
			return []SimReply{{Data: mkResponse(t, stdReturn(m.peerID(op.Alt), contacts, nil))}}
		case "root-id": // answers with the node's own ID
			return []SimReply{{Data: mkResponse(t, stdReturn(m.root, contacts, nil))}}
		case "zero-id":
			return []SimReply{{Data: mkResponse(t, stdReturn([20]byte{}, contacts, nil))}}
		case "other-port":
			from := *addr
			from.Port = 1 + addr.Port%65535
			return []SimReply{{From: &from, Data: mkResponse(t, stdReturn(id, contacts, nil))}}
		case "other-t":
			return []SimReply{{Data: mkResponse(append(append([]byte(nil), t...), 'x'), stdReturn(id, contacts, nil))}}
		case "error":
			return []SimReply{{Data: mkError(t, 201, "scripted")}}
		case "ro":
			v, _, _ := refmodel.Parse(mkResponse(t, stdReturn(id, contacts, nil)))
			return []SimReply{{Data: v.Set("ro", bint(1)).Encode(true)}}
		}
		return nil
	}
}

// eventsSince turns the simulated peers' delivered datagrams into table-relevant events.
func (m *tableMachine) eventsSince(mark int) (evs []tev) {
	for _, d := range m.net.Delivered(mark) {
		if !d.Completes {
			continue
		}
		v, _, err := refmodel.Parse(d.Data)
		if err != nil {
			continue
		}
		y, _ := v.Get("y")
		if y.S != "r" {
			continue
		}
		r, ok := v.Get("r")
		if !ok {
			continue
		}
		ev := tev{kind: "response", addr: d.From.String(), ip: d.From.IP}
		if idv, ok := r.Get("id"); ok && idv.Kind == 's' && len(idv.S) == 20 {
			copy(ev.id[:], idv.S)
			ev.hasID = true
		}
		if ro, ok := v.Get("ro"); ok && ro.Kind == 'i' && ro.I != 0 {
			ev.ro = true
		}
		evs = append(evs, ev)
		if ev.hasID {
			m.answered[entryKey{ev.id, ev.addr}] = true
		}
	}
	return
}

func (m *tableMachine) secureOK(id [20]byte, ip net.IP) bool {
	return !m.sc.Security || refmodel.Bep42Exempt(ip) || refmodel.Bep42Match(id, ip)
}

func (m *tableMachine) eligible(ev tev) bool {
	if !ev.hasID || ev.blocked {
		return false
	}
	if (ev.kind == "query" || ev.kind == "response") && ev.ro {
		return false
	}
	if ev.id == m.root || ev.id == ([20]byte{}) {
		return false
	}
	return m.secureOK(ev.id, ev.ip)
}

// ---- C05: structural invariants and API agreement -------------------------------------------------------------

func (m *tableMachine) checkC05(s dht.VerifTableSnapshot, what string) {
	now := time.Now()
	perBucket := map[int]int{}
	seen := map[entryKey]bool{}
	wantIndex := map[string]map[[20]byte]bool{}
	nGood := 0
	notBad := map[string]int{}
	for _, e := range s.Entries {
		if e.ID == m.root {
			m.report("C05:own-id-in-table", "%s: the node's own ID is in the table at %s", what, e.Addr)
			continue
		}
		if e.ID == ([20]byte{}) {
			m.report("C05:zero-id-in-table", "%s: the all-zero ID is in the table at %s", what, e.Addr)
		}
		if want := bucketOf(m.root, e.ID); want != e.Bucket {
			m.report("C05:wrong-bucket", "%s: entry %x@%s sits in bucket %d, shares %d prefix bits with the root", what, e.ID[:], e.Addr, e.Bucket, want)
		}
		perBucket[e.Bucket]++
		if seen[keyOf(e)] {
			m.report("C05:duplicate-entry", "%s: two entries share ID %x and address %s", what, e.ID[:], e.Addr)
		}
		seen[keyOf(e)] = true
		if wantIndex[e.Addr] == nil {
			wantIndex[e.Addr] = map[[20]byte]bool{}
		}
		wantIndex[e.Addr][e.ID] = true
		rb, rg := m.isBad(e), m.isGood(e)
		if rb != e.Bad || rg != e.Good || e.Questionable != (!rb && !rg) {
			m.report("C05:classification-disagrees", "%s: entry %x@%s (lastQ %v ago, lastR %v ago, failedPing=%v): package says good=%v bad=%v questionable=%v, BEP 5 rule says good=%v bad=%v", what, e.ID[:4], e.Addr,
				sinceOrNever(e.LastGotQuery, now), sinceOrNever(e.LastGotResponse, now), e.FailedLastQuestionablePing, e.Good, e.Bad, e.Questionable, rg, rb)
		}
		if rg {
			nGood++
		}
		if !rb {
			notBad[fmt.Sprintf("%x@%s", e.ID[:], e.Addr)]++
		}
	}
	var buckets []int
	for b := range perBucket {
		buckets = append(buckets, b)
	}
	sort.Ints(buckets)
	for _, b := range buckets {
		if perBucket[b] > 8 {
			m.report("C05:bucket-overfull", "%s: bucket %d holds %d entries", what, b, perBucket[b])
		}
	}
	// the per-address index mirrors the buckets
	var addrs []string
	for a := range s.AddrIndex {
		addrs = append(addrs, a)
	}
	sort.Strings(addrs)
	for _, a := range addrs {
		ids := s.AddrIndex[a]
		if len(ids) != len(wantIndex[a]) {
			m.report("C05:addr-index-mismatch", "%s: address index lists %d IDs for %s, the buckets hold %d", what, len(ids), a, len(wantIndex[a]))
			continue
		}
		for _, id := range ids {
			if !wantIndex[a][id] {
				m.report("C05:addr-index-mismatch", "%s: address index lists %x for %s, no such entry", what, id[:], a)
			}
		}
	}
	var waddrs []string
	for a := range wantIndex {
		waddrs = append(waddrs, a)
	}
	sort.Strings(waddrs)
	for _, a := range waddrs {
		if _, ok := s.AddrIndex[a]; !ok {
			m.report("C05:addr-index-mismatch", "%s: entries at %s are missing from the address index", what, a)
		}
	}
	// API agreement. The readings are taken one after the other; they are compared with the snapshot only
	// if the table is still the same afterwards (otherwise something was still moving: no verdict).
	type apiV struct{ key, msg string }
	var api []apiV
	add := func(key, format string, a ...any) { api = append(api, apiV{key, fmt.Sprintf(format, a...)}) }
	if n := m.sv.S.NumNodes(); n != len(s.Entries) {
		add("C05:numnodes-disagrees", "%s: NumNodes() = %d, the table holds %d entries", what, n, len(s.Entries))
	}
	st := m.sv.S.Stats()
	if st.Nodes != len(s.Entries) {
		add("C05:stats-nodes-disagrees", "%s: Stats().Nodes = %d, the table holds %d entries", what, st.Nodes, len(s.Entries))
	}
	if st.GoodNodes != nGood {
		add("C05:stats-good-disagrees", "%s: Stats().GoodNodes = %d, %d entries are good by the BEP 5 rule", what, st.GoodNodes, nGood)
	}
	got := map[string]int{}
	for _, ni := range m.sv.S.Nodes() {
		got[fmt.Sprintf("%x@%s", ni.ID[:], ni.Addr.String())]++
	}
	if !sameCounts(got, notBad) {
		add("C05:nodes-list-disagrees", "%s: Nodes() returned %d contacts %v; the non-bad entries are %d: %v", what, len(got), sortedStrings(got), len(notBad), sortedStrings(notBad))
	}
	var buf bytes.Buffer
	m.sv.S.WriteStatus(&buf)
	var g, tot int
	for _, line := range strings.Split(buf.String(), "\n") {
		if n, _ := fmt.Sscanf(line, "Nodes in table: %d good, %d total", &g, &tot); n == 2 {
			if g != nGood || tot != len(s.Entries) {
				add("C05:status-disagrees", "%s: WriteStatus says %d good, %d total; the table has %d good, %d total", what, g, tot, nGood, len(s.Entries))
			}
		}
	}
	if len(api) > 0 {
		if again := m.sv.S.VerifTable(); !sameTable(s, again) {
			m.c.Label("table-moved-during-api-readings")
			return
		}
		for _, v := range api {
			m.report(v.key, "%s", v.msg)
		}
	}
}

func sameTable(a, b dht.VerifTableSnapshot) bool {
	if len(a.Entries) != len(b.Entries) {
		return false
	}
	for i := range a.Entries {
		x, y := a.Entries[i], b.Entries[i]
		if x.ID != y.ID || x.Addr != y.Addr || x.Bucket != y.Bucket || !x.LastGotQuery.Equal(y.LastGotQuery) || !x.LastGotResponse.Equal(y.LastGotResponse) || x.FailedLastQuestionablePing != y.FailedLastQuestionablePing {
			return false
		}
	}
	return true
}

func sinceOrNever(t, now time.Time) string {
	if t.IsZero() {
		return "never"
	}
	return now.Sub(t).Round(time.Second).String()
}

func sameCounts(a, b map[string]int) bool {
	if len(a) != len(b) {
		return false
	}
	for k, v := range a {
		if b[k] != v {
			return false
		}
	}
	return true
}

// ---- C06: transition rules -------------------------------------------------------------------------------------

func (m *tableMachine) checkC06(pre, post dht.VerifTableSnapshot, evs []tev, op TOp, what string, preTime time.Time) {
	preIdx, postIdx := indexEntries(pre), indexEntries(post)
	multi := op.Kind == "TM"
	evFor := func(k entryKey, kind string) *tev {
		for i := range evs {
			if evs[i].kind == kind && evs[i].hasID && !evs[i].blocked && evs[i].id == k.id && evs[i].addr == k.addr {
				return &evs[i]
			}
		}
		return nil
	}
	// (a) admission is justified
	var newKeys []entryKey
	for k := range postIdx {
		if _, had := preIdx[k]; !had {
			newKeys = append(newKeys, k)
		}
	}
	sort.Slice(newKeys, func(i, j int) bool {
		return newKeys[i].addr+string(newKeys[i].id[:]) < newKeys[j].addr+string(newKeys[j].id[:])
	})
	admittedByResponse := map[int]bool{} // bucket -> a responder was admitted there
	for _, k := range newKeys {
		e := postIdx[k]
		justified := false
		for _, ev := range evs {
			if ev.hasID && ev.id == k.id && ev.addr == k.addr && ev.kind != "failping" && m.eligible(ev) {
				justified = true
				if ev.kind == "response" {
					admittedByResponse[e.Bucket] = true
				}
			}
		}
		if !justified {
			m.report("C06:unjustified-admission", "%s: entry %x@%s appeared although no eligible query, matched response or AddNode from that (address, ID) happened in this step (events: %s)", what, k.id[:], k.addr, describeEvents(evs))
		}
	}
	// (b) eviction is justified
	var goneKeys []entryKey
	for k := range preIdx {
		if _, has := postIdx[k]; !has {
			goneKeys = append(goneKeys, k)
		}
	}
	sort.Slice(goneKeys, func(i, j int) bool {
		return goneKeys[i].addr+string(goneKeys[i].id[:]) < goneKeys[j].addr+string(goneKeys[j].id[:])
	})
	for _, k := range goneKeys {
		e := preIdx[k]
		m.droppedEntry = true
		switch {
		case m.isGood(e):
			m.report("C06:good-entry-evicted", "%s: entry %x@%s was good (responded %v ago, queried %v ago) and was removed", what, k.id[:], k.addr, sinceOrNever(e.LastGotResponse, preTime), sinceOrNever(e.LastGotQuery, preTime))
		case m.isBad(e):
		case multi && evFor(k, "failping") != nil:
		case !m.everResponded(e) && admittedByResponse[e.Bucket]:
		default:
			m.report("C06:unjustified-eviction", "%s: entry %x@%s (not bad; responded %v ago) was removed, but it is displaceable only if it never answered and the newcomer has just answered (events: %s)", what, k.id[:], k.addr, sinceOrNever(e.LastGotResponse, preTime), describeEvents(evs))
		}
	}
	// (c) admission is complete (single-event steps)
	if !multi {
		var adm []tev
		for _, ev := range evs {
			if ev.kind != "failping" {
				adm = append(adm, ev)
			}
		}
		if len(adm) == 1 {
			ev := adm[0]
			k := entryKey{ev.id, ev.addr}
			_, had := preIdx[k]
			_, has := postIdx[k]
			if ev.hasID && !m.eligible(ev) {
				m.offeredIneligible = true
			}
			if m.eligible(ev) && !has {
				b := bucketOf(m.root, ev.id)
				count, room := 0, false
				for _, e := range pre.Entries {
					if e.Bucket != b {
						continue
					}
					count++
					if m.isBad(e) || (ev.kind == "response" && !m.everResponded(e)) {
						room = true
					}
				}
				if count >= 8 {
					m.fullBucketNewcomer = true
				}
				if had {
					m.report("C06:entry-lost", "%s: entry %x@%s was present and vanished on a message from itself", what, k.id[:], k.addr)
				} else if count < 8 || room {
					// negative evidence: look again after a moment before believing it
					time.Sleep(20 * time.Millisecond)
					if err := m.sv.C.Quiesce(barrierTimeout); err == nil {
						if _, late := indexEntries(m.sv.S.VerifTable())[k]; late {
							m.c.Label("late-admission-after-barrier")
							m.c.Inconclusive = "an admission became visible only after the barrier had settled"
							return
						}
					}
					m.report("C06:eligible-sender-not-admitted", "%s: %s from %s with ID %x is eligible and bucket %d had room (%d entries, displaceable=%v) but it was not admitted", what, ev.kind, ev.addr, ev.id[:], b, count, room)
				}
			} else if m.eligible(ev) && !had && has {
				b := bucketOf(m.root, ev.id)
				count := 0
				for _, e := range pre.Entries {
					if e.Bucket == b {
						count++
					}
				}
				if count >= 8 {
					m.fullBucketNewcomer = true
					m.ninthInsert = true
				}
			}
		}
	}
	// (d) liveness evidence only moves forward and only on messages from that contact
	for k, a := range preIdx {
		b, ok := postIdx[k]
		if !ok {
			continue
		}
		if op.Kind == "Age" {
			d := time.Duration(op.AgeMin) * time.Minute
			if (!a.LastGotQuery.IsZero() && !b.LastGotQuery.Equal(a.LastGotQuery.Add(-d))) || (!a.LastGotResponse.IsZero() && !b.LastGotResponse.Equal(a.LastGotResponse.Add(-d))) {
				m.report("C06:harness-age-hook", "%s: ageing hook did not shift the timestamps of %x@%s by %v", what, k.id[:4], k.addr, d)
			}
			continue
		}
		if multi {
			continue // an entry may be displaced and re-admitted within one TableMaintainer pass
		}
		if b.LastGotQuery.Before(a.LastGotQuery) || b.LastGotResponse.Before(a.LastGotResponse) {
			m.report("C06:evidence-moved-backwards", "%s: liveness timestamps of %x@%s moved backwards", what, k.id[:4], k.addr)
		}
		if !b.LastGotQuery.Equal(a.LastGotQuery) && evFor(k, "query") == nil {
			m.report("C06:evidence-without-message", "%s: last-query time of %x@%s changed without a query from it (events: %s)", what, k.id[:4], k.addr, describeEvents(evs))
		}
		if !b.LastGotResponse.Equal(a.LastGotResponse) && evFor(k, "response") == nil {
			m.report("C06:evidence-without-message", "%s: last-response time of %x@%s changed without a matched response from it (events: %s)", what, k.id[:4], k.addr, describeEvents(evs))
		}
		if !a.FailedLastQuestionablePing && b.FailedLastQuestionablePing && evFor(k, "failping") == nil {
			m.report("C06:evidence-without-message", "%s: %x@%s was marked as failing its questionable ping without such a ping failing", what, k.id[:4], k.addr)
		}
		if a.FailedLastQuestionablePing && !b.FailedLastQuestionablePing && evFor(k, "response") == nil {
			m.report("C06:evidence-without-message", "%s: the failed-ping mark of %x@%s was cleared without a response from it", what, k.id[:4], k.addr)
		}
	}
}

func describeEvents(evs []tev) string {
	var l []string
	for _, e := range evs {
		s := fmt.Sprintf("%s %s", e.kind, e.addr)
		if e.hasID {
			s += fmt.Sprintf(" id=%x", e.id[:4])
		}
		if e.ro {
			s += " ro"
		}
		if e.blocked {
			s += " blocked"
		}
		l = append(l, s)
	}
	return "[" + strings.Join(l, "; ") + "]"
}

// ---- C09: probe replies --------------------------------------------------------------------------------------------

func (m *tableMachine) probe(op TOp, oi int, pre dht.VerifTableSnapshot) (tev, bool) {
	ev, ok := m.probe1(op, oi, pre)
	return ev, ok
}

func (m *tableMachine) probe1(op TOp, oi int, pre dht.VerifTableSnapshot) (pev tev, _ bool) {
	var target [20]byte
	switch op.TargetKind {
	case "root":
		target = m.root
	case "entry", "near-entry":
		if len(pre.Entries) == 0 {
			target = arr20(op.TargetTail)
		} else {
			target = pre.Entries[op.K%len(pre.Entries)].ID
			if op.TargetKind == "near-entry" {
				target[19] ^= 1 + op.TargetTail[19]%3
			}
		}
	case "bucket":
		target = refmodel.WithPrefix(m.root, op.TBucket, arr20(op.TargetTail))
	default:
		target = arr20(op.TargetTail)
	}
	other := arr20(op.TargetTail)
	other[0] ^= 0x80
	if other == target {
		other[1] ^= 1
	}
	var src *net.UDPAddr
	if op.SrcV6 && m.sc.Dual {
		ip := net.ParseIP("2001:db9::").To16()
		ip[15] = byte(1 + oi%200)
		src = &net.UDPAddr{IP: ip, Port: 3000 + oi}
	} else {
		ip := net.IP{44, 0, byte(oi >> 8), byte(1 + oi%200)}
		if m.sc.Dual {
			ip = ip.To16()
		}
		src = &net.UDPAddr{IP: ip, Port: 3000 + oi}
	}
	sender := [20]byte{0xee, byte(oi), 1}
	if op.FromEntry && len(pre.Entries) > 0 {
		// a contact the node already knows asks: it is a requester like any other (unless it is
		// blocklisted: then its datagrams are dropped unread and it cannot ask anything)
		if e := pre.Entries[(op.K/7)%len(pre.Entries)]; !m.isBlocked(e.IP) {
			src, sender = &net.UDPAddr{IP: append(net.IP(nil), e.IP...), Port: e.Port}, e.ID
			m.c.Label("probe-from-known-contact")
			// its query is heard before the reply is built: that is liveness evidence for its own entry
			if em := m.model[keyOf(e)]; em != nil && m.modelValid {
				em.lastQ, em.hasQ = m.vnow, true
			}
		}
	}
	own, decoy := "target", "info_hash"
	if op.Method == "get_peers" {
		own, decoy = "info_hash", "target"
	}
	kv := []BKV{{K: own, V: bs(target[:])}}
	if op.Decoy == "other" {
		kv = append(kv, BKV{K: decoy, V: bs(other[:])})
	}
	if len(op.Want) > 0 {
		kv = append(kv, wantList(op.Want))
	}
	w4, w6, known := wants(op.Want, src.IP)
	now := time.Now()
	tb := 159
	if target != m.root {
		tb = bucketOf(m.root, target)
	}
	// S[j]: good entries of bucket j per family, from the pre-probe snapshot
	type fam struct {
		byBucket map[int][]dht.VerifEntry
		total    int
	}
	fams := map[bool]*fam{false: {byBucket: map[int][]dht.VerifEntry{}}, true: {byBucket: map[int][]dht.VerifEntry{}}} // key: isV6
	populated, impure := map[int]bool{}, false
	for _, e := range pre.Entries {
		if e.Bucket <= tb {
			populated[e.Bucket] = true
		}
		if !m.isGood(e) {
			if e.Bucket <= tb {
				impure = true
			}
			continue
		}
		v6 := e.IP.To4() == nil
		f := fams[v6]
		if e.Bucket <= tb {
			f.byBucket[e.Bucket] = append(f.byBucket[e.Bucket], e)
			f.total++
		}
	}
	if fams[false].total > 0 && fams[true].total > 0 {
		impure = true
	}
	if len(populated) >= 2 && impure {
		m.probesNontrivial = true
	}
	// with a peer store: somebody of one family announces itself for the probed infohash first
	announced := false
	if m.sc.PeerStore && op.Method == "get_peers" && op.AnnFam != "" && (op.AnnFam == "v4" || m.sc.Dual) {
		var aip net.IP
		if op.AnnFam == "v6" {
			aip = net.ParseIP("2001:db9:9::").To16()
			aip[15] = byte(1 + oi%200)
		} else {
			aip = net.IP{44, 9, byte(oi >> 8), byte(1 + oi%200)}
			if m.sc.Dual {
				aip = aip.To16()
			}
		}
		asrc := &net.UDPAddr{IP: aip, Port: 3900 + oi%1000}
		aid := [20]byte{0xea, byte(oi), 2}
		m.tseq++
		gt := []byte(fmt.Sprintf("ag%d", m.tseq))
		outs, ok := m.sv.exchange(m.c, asrc, mkQuery(gt, "get_peers", mkArgs(aid, BKV{K: "info_hash", V: bs(target[:])})), true)
		if !ok {
			return pev, false
		}
		m.extraEvs = append(m.extraEvs, tev{kind: "query", addr: asrc.String(), ip: asrc.IP, id: aid, hasID: true})
		if o, found := replyTo(outs, asrc, gt); found && o.Y == "r" {
			if r, ok := o.R(); ok {
				if tk, ok := r.Get("token"); ok && tk.Kind == 's' {
					at := []byte(fmt.Sprintf("aa%d", m.tseq))
					if _, ok := m.sv.exchange(m.c, asrc, mkQuery(at, "announce_peer", mkArgs(aid, BKV{K: "info_hash", V: bs(target[:])}, BKV{K: "port", V: bint(int64(4000 + oi%1000))}, BKV{K: "token", V: bstr(tk.S)})), true); !ok {
						return pev, false
					}
					announced = true
					m.c.Label("probe-after-announce-" + op.AnnFam)
				}
			}
		}
	}
	_ = announced
	preIdx := indexEntries(pre)
	for rep := 0; rep < 4; rep++ {
		m.tseq++
		tt := []byte(fmt.Sprintf("pr%d", m.tseq))
		pev = tev{kind: "query", addr: src.String(), ip: src.IP, id: sender, hasID: true, ro: op.RO}
		b := mkQuery(tt, op.Method, mkArgs(sender, kv...))
		if op.RO {
			v, _, _ := refmodel.Parse(b)
			b = v.Set("ro", bint(1)).Encode(true)
		}
		outs, ok := m.sv.exchange(m.c, src, b, true)
		if !ok {
			return pev, false
		}
		o, found := replyTo(outs, src, tt)
		what := fmt.Sprintf("op %d: %s probe #%d from %v (want %v) for target %x (bucket %d, decoy %s)", oi, op.Method, rep, src, op.Want, target[:], tb, op.Decoy)
		if !found || o.Y != "r" {
			m.report("C09:probe-not-answered", "%s: %d datagrams, no response", what, len(outs))
			return pev, true
		}
		r, _ := o.R()
		for _, v6 := range []bool{false, true} {
			field, size, want := "nodes", 26, w4
			if v6 {
				field, size, want = "nodes6", 38, w6
			}
			nv, has := r.Get(field)
			var got []dht.VerifEntry
			if has {
				if known && !want {
					m.report("C09:family-not-wanted", "%s: `%s` sent to a requester that does not want it: %s", what, field, o.Describe())
				}
				if nv.Kind != 's' || len(nv.S)%size != 0 {
					m.report("C09:malformed-node-list", "%s: `%s` is %d bytes, not a multiple of %d", what, field, len(nv.S), size)
					continue
				}
				seen := map[entryKey]bool{}
				for p := 0; p+size <= len(nv.S); p += size {
					var id [20]byte
					copy(id[:], nv.S[p:p+20])
					ip := net.IP([]byte(nv.S[p+20 : p+size-2]))
					port := int(nv.S[p+size-2])<<8 | int(nv.S[p+size-1])
					addr := (&net.UDPAddr{IP: ip, Port: port}).String()
					if id == m.root {
						m.report("C09:lists-itself", "%s: the reply lists the responder itself", what)
						continue
					}
					e, ok := preIdx[entryKey{id, addr}]
					if !ok {
						m.report("C09:contact-not-in-table", "%s: `%s` lists %x@%s, which is not a routing-table entry", what, field, id[:], addr)
						continue
					}
					if seen[keyOf(e)] {
						m.report("C09:duplicate-contact", "%s: `%s` lists %x@%s twice", what, field, id[:4], addr)
					}
					seen[keyOf(e)] = true
					if (e.IP.To4() == nil) != v6 {
						m.report("C09:wrong-family", "%s: `%s` lists %x@%s, a contact of the other address family", what, field, id[:4], addr)
					}
					if !m.answered[keyOf(e)] {
						m.report("C09:contact-never-answered", "%s: `%s` lists %x@%s, which never answered one of the node's own queries (by the harness's record of delivered replies)", what, field, id[:4], addr)
					}
					if !m.isGood(e) {
						m.report("C09:non-good-contact", "%s: `%s` lists %x@%s, which is not good (responded %v ago, queried %v ago, failedPing=%v, bad=%v)", what, field, id[:4], addr, sinceOrNever(e.LastGotResponse, now), sinceOrNever(e.LastGotQuery, now), e.FailedLastQuestionablePing, m.ref.bad(e))
					}
					got = append(got, e)
				}
				if len(got) > 8 {
					m.report("C09:too-many-contacts", "%s: `%s` lists %d contacts", what, field, len(got))
				}
			}
			if !known || !want {
				continue
			}
			if vals, ok := r.Get("values"); ok && vals.Kind == 'l' && len(vals.L) > 0 {
				// a reply that carries peers need not carry contacts as well: only the soundness clauses apply
				m.c.Label("probe-answered-with-values")
				continue
			}
			f := fams[v6]
			expect := f.total
			if expect > 8 {
				expect = 8
			}
			if len(got) != expect {
				m.report("C09:wrong-count", "%s: `%s` lists %d contacts; the buckets at or below the target's hold %d good contacts of that family (so %d are due)", what, field, len(got), f.total, expect)
			}
			lowest := tb + 1
			inGot := map[entryKey]bool{}
			for _, e := range got {
				if e.Bucket > tb {
					m.report("C09:contact-beyond-target-bucket", "%s: `%s` lists %x@%s from bucket %d, nearer to the responder than the target's bucket %d", what, field, e.ID[:4], e.Addr, e.Bucket, tb)
				}
				if e.Bucket < lowest {
					lowest = e.Bucket
				}
				inGot[keyOf(e)] = true
			}
			for j := lowest + 1; j <= tb; j++ {
				for _, e := range f.byBucket[j] {
					if !inGot[keyOf(e)] {
						m.report("C09:nearer-bucket-skipped", "%s: `%s` includes a contact from bucket %d but omits the good contact %x@%s of the nearer bucket %d", what, field, lowest, e.ID[:4], e.Addr, j)
					}
				}
			}
		}
		if m.viol != nil {
			return pev, true
		}
	}
	m.c.Label("probe-" + op.Method)
	return pev, true
}

// ---- executor ----------------------------------------------------------------------------------------------------------

func runTable(sc TableSc, c *kit.Case, clause string) *kit.Violation {
	m := &tableMachine{sc: sc, c: c, clause: clause, root: arr20(sc.Root), script: map[string]TOp{}, answered: map[entryKey]bool{}, model: map[entryKey]*entryModel{}, modelValid: true}
	m.ref = tableRef{root: m.root, security: sc.Security}
	opts := SrvOpts{NodeID: m.root, Security: sc.Security, Hook: sc.Hook, PeerStore: sc.PeerStore}
	c.Label("hook-" + sc.Hook)
	if len(sc.Blocked) > 0 {
		m.blocked = &blockSet{}
		for _, i := range sc.Blocked {
			m.blocked.ips = append(m.blocked.ips, net.IP(sc.Peers[i].IP))
		}
		opts.Blocklist = m.blocked
	}
	for i := 0; i < 3 && i < len(sc.Peers); i++ {
		opts.Starting = append(opts.Starting, sc.Peers[i].UDP())
	}
	m.sv = newSrv(opts)
	if m.sv.ID != m.root {
		// replayed or hand-written scenario with a zero root: the node chose its own ID
		m.root = m.sv.ID
		m.ref.root = m.root
	}
	closed := false
	defer func() {
		if !closed {
			m.sv.Close()
		}
	}()
	m.net = newSimNet(m.sv)
	m.net.Blocked = m.isBlocked
	for i, p := range sc.Peers {
		m.net.Add(&SimPeer{Addr: p.UDP(), ID: m.peerID(i), Handle: m.handle(i)})
	}
	c.Label(fmt.Sprintf("security-%v", sc.Security))
	pre := m.sv.S.VerifTable()
	for oi, op := range sc.Ops {
		preTime := time.Now()
		mark := m.net.NumDelivered()
		var evs []tev
		what := fmt.Sprintf("op %d %s", oi, op.Kind)
		switch op.Kind {
		case "Q":
			p := sc.Peers[op.Peer]
			id := m.peerID(op.Peer)
			switch op.IDKind {
			case "zero":
				id = [20]byte{}
			case "root":
				id = m.root
			}
			m.tseq++
			b := mkQuery([]byte(fmt.Sprintf("q%d", m.tseq)), op.Method, mkArgs(id, BKV{K: "target", V: bs(m.root[:])}, BKV{K: "info_hash", V: bs(m.root[:])}))
			if op.RO {
				v, _, _ := refmodel.Parse(b)
				b = v.Set("ro", bint(1)).Encode(true)
			}
			m.sv.C.Inject(p.UDP(), b)
			evs = append(evs, tev{kind: "query", addr: p.UDP().String(), ip: net.IP(p.IP), id: id, hasID: true, ro: op.RO, blocked: m.isBlocked(net.IP(p.IP))})
			what += fmt.Sprintf(" (%s from peer %d %s id=%x ro=%v)", op.Method, op.Peer, p.UDP(), id[:4], op.RO)
		case "P", "H":
			p := sc.Peers[op.Peer]
			m.script[p.UDP().String()] = op
			dest := p.UDP()
			if op.AltRep {
				// the caller names the same IPv4 address in the other byte form
				if v4 := dest.IP.To4(); v4 != nil {
					if len(dest.IP) == 4 {
						dest.IP = v4.To16()
					} else {
						dest.IP = v4
					}
				}
			}
			done := make(chan struct{})
			go func() {
				defer close(done)
				if op.Kind == "P" {
					m.sv.S.Ping(dest)
				} else {
					m.sv.S.FindNode(dht.NewAddr(dest), int160.FromByteArray(m.peerID(op.Alt)), dht.QueryRateLimiting{})
				}
			}()
			if !m.await(done, what) {
				return m.viol
			}
			delete(m.script, p.UDP().String())
			what += fmt.Sprintf(" (peer %d %s id=%x outcome %s)", op.Peer, p.UDP(), p.ID[:4], op.Outcome)
		case "U":
			p := sc.Peers[op.Peer]
			m.tseq++
			m.sv.C.Inject(p.UDP(), mkResponse([]byte(fmt.Sprintf("un%d", m.tseq)), stdReturn(m.peerID(op.Peer), nil, nil)))
			what += fmt.Sprintf(" (unsolicited response from peer %d %s)", op.Peer, p.UDP())
		case "Add":
			p := sc.Peers[op.Peer]
			id := m.peerID(op.Peer)
			switch op.IDKind {
			case "zero":
				id = [20]byte{}
			case "root":
				id = m.root
			}
			ua := p.UDP()
			if op.AltRep {
				// the same address in the other byte representation of its IP
				if v4 := ua.IP.To4(); v4 != nil {
					if len(ua.IP) == 4 {
						ua.IP = ua.IP.To16()
					} else {
						ua.IP = v4
					}
				}
			}
			m.sv.S.AddNode(krpc.NodeInfo{ID: id, Addr: krpc.NodeAddr{IP: ua.IP, Port: ua.Port}})
			if id != ([20]byte{}) {
				evs = append(evs, tev{kind: "add", addr: ua.String(), ip: ua.IP, id: id, hasID: true})
			}
			what += fmt.Sprintf(" (AddNode peer %d %s id=%x altrep=%v)", op.Peer, ua, id[:4], op.AltRep)
		case "PBlock":
			p := sc.Peers[op.Peer]
			if m.isBlocked(net.IP(p.IP)) {
				continue
			}
			sop := op
			sop.Outcome = "hold"
			m.script[p.UDP().String()] = sop
			m.heldReply = nil
			m.sv.C.DelayHook = func(int64, bool) time.Duration { return time.Hour }
			ctx, cancel := context.WithCancel(context.Background())
			qdone := make(chan struct{})
			simnet.Go(func() {
				defer close(qdone)
				m.sv.S.Query(ctx, dht.NewAddr(p.UDP()), "ping", dht.QueryInput{})
			})
			if err := m.sv.C.Quiesce(barrierTimeout); err != nil {
				cancel()
				c.Inconclusive = err.Error()
				return nil
			}
			delete(m.script, p.UDP().String())
			// the address becomes blocked while the query is outstanding; then its answer arrives
			if m.blocked == nil {
				m.blocked = &blockSet{}
			}
			m.blocked.ips = append(m.blocked.ips, net.IP(p.IP))
			m.sv.S.SetIPBlockList(m.blocked)
			if m.heldReply != nil {
				m.heldReply()
				evs = append(evs, tev{kind: "response", addr: p.UDP().String(), ip: net.IP(p.IP), id: m.peerID(op.Peer), hasID: true, blocked: true})
			}
			if err := m.sv.C.Quiesce(barrierTimeout); err != nil {
				cancel()
				c.Inconclusive = err.Error()
				return nil
			}
			select {
			case <-qdone:
				cancel()
				m.report("C06:blocked-reply-completed-query", "%s: the answer from %v, blocklisted while the query was outstanding, completed the query", what, p.UDP())
			default:
				cancel()
				<-qdone
			}
			m.sv.C.DelayHook = nil
			m.offeredIneligible = true
			what += fmt.Sprintf(" (peer %d %s blocklisted while its ping was outstanding)", op.Peer, p.UDP())
		case "PCancel":
			p := sc.Peers[op.Peer]
			sop := op
			sop.Outcome = "hold"
			m.script[p.UDP().String()] = sop
			m.heldReply = nil
			m.sv.C.DelayHook = func(int64, bool) time.Duration { return time.Hour }
			ctx, cancel := context.WithCancel(context.Background())
			qdone := make(chan struct{})
			simnet.Go(func() {
				defer close(qdone)
				m.sv.S.Query(ctx, dht.NewAddr(p.UDP()), "ping", dht.QueryInput{})
			})
			if err := m.sv.C.Quiesce(barrierTimeout); err != nil {
				cancel()
				c.Inconclusive = err.Error()
				return nil
			}
			delete(m.script, p.UDP().String())
			// the caller gives up; only after its call has returned does the answer arrive
			cancel()
			select {
			case <-qdone:
			case <-time.After(20 * time.Second):
				if ok, who := m.sv.C.AllBlocked(); !ok {
					c.Inconclusive = "cancelled query still running after 20 s with runnable goroutines: " + who
					return nil
				}
				m.report("C06:api-call-hung", "%s: the cancelled query did not return although every module goroutine is blocked", what)
				return m.viol
			}
			if m.heldReply != nil {
				m.heldReply() // nobody is waiting for it any more: it is an unsolicited response
				m.offeredIneligible = true
			}
			m.sv.C.DelayHook = nil
			what += fmt.Sprintf(" (peer %d %s answers a ping after the ping's context was cancelled and the call had returned)", op.Peer, p.UDP())
		case "Age":
			m.sv.S.VerifAge(time.Duration(op.AgeMin) * time.Minute)
			what += fmt.Sprintf(" (%d min)", op.AgeMin)
		case "QP":
			var cands []dht.VerifEntry
			for _, e := range pre.Entries {
				if !m.isBad(e) && !m.isGood(e) {
					cands = append(cands, e)
				}
			}
			if len(cands) == 0 {
				c.Label("qp-no-questionable")
				continue
			}
			e := cands[op.K%len(cands)]
			ua := &net.UDPAddr{IP: e.IP, Port: e.Port}
			sop := op
			// the scripted outcome answers with the ID of the entry being pinged
			sop.Peer = -1
			for i := range sc.Peers {
				if sc.Peers[i].UDP().String() == e.Addr && m.peerID(i) == e.ID {
					sop.Peer = i
				}
			}
			if sop.Peer < 0 {
				// the entry was admitted under another peer's ID (other-id outcome): find any peer at the address
				for i := range sc.Peers {
					if sc.Peers[i].UDP().String() == e.Addr {
						sop.Peer = i
					}
				}
				if sop.Peer < 0 || op.Outcome == "answer" {
					sop.Outcome = "silent"
				}
			}
			if sop.Peer >= 0 {
				m.script[e.Addr] = sop
			}
			var res dht.QueryResult
			done := make(chan struct{})
			go func() {
				defer close(done)
				res = m.sv.S.VerifQuestionablePing(context.Background(), ua, e.ID)
			}()
			if !m.await(done, what) {
				return m.viol
			}
			delete(m.script, e.Addr)
			if res.Err != nil || res.Reply.R == nil {
				evs = append(evs, tev{kind: "failping", addr: e.Addr, ip: e.IP, id: e.ID, hasID: true})
			}
			what += fmt.Sprintf(" (questionable ping of %x@%s, outcome %s, err=%v)", e.ID[:4], e.Addr, sop.Outcome, res.Err)
		case "Probe":
			pev, ok := m.probe(op, oi, pre)
			if !ok {
				return nil
			}
			if m.viol != nil {
				return m.viol
			}
			evs = append(evs, pev)
			evs = append(evs, m.extraEvs...)
			m.extraEvs = nil
		case "TM":
			simnet.Go(m.sv.S.TableMaintainer)
			what += " (one TableMaintainer pass)"
		}
		if err := m.sv.C.Quiesce(barrierTimeout); err != nil {
			c.Inconclusive = err.Error()
			return nil
		}
		evs = append(evs, m.eventsSince(mark)...)
		if op.Kind == "TM" {
			// any entry that was not good before the pass may have failed its questionable ping during it
			for _, e := range pre.Entries {
				evs = append(evs, tev{kind: "failping", addr: e.Addr, ip: e.IP, id: e.ID, hasID: true})
			}
		}
		post := m.sv.S.VerifTable()
		m.checkC06(pre, post, evs, op, what, preTime)
		m.updateModel(post, evs, op)
		m.checkC05(post, "after "+what)
		if m.viol != nil {
			return m.viol
		}
		c.Label("op-" + op.Kind)
		pre = post
		if op.Kind == "TM" {
			break
		}
	}
	// goroutines of this case must not outlive it
	m.sv.Close()
	closed = true
	switch clause {
	case "C05":
		if m.ninthInsert || m.droppedEntry {
			c.NonTrivial()
		}
	case "C06":
		if m.fullBucketNewcomer || m.offeredIneligible {
			c.NonTrivial()
		}
	case "C09":
		if m.probesNontrivial {
			c.NonTrivial()
		}
	}
	if m.droppedEntry {
		c.Label("an-entry-was-dropped")
	}
	if m.fullBucketNewcomer {
		c.Label("full-bucket-newcomer")
	}
	if m.ninthInsert {
		c.Label("ninth-insert-displaced")
	}
	return m.viol
}

// await waits for an API call the harness made; the virtual time-outs make every query return, so
// a call that does not return while every module goroutine is blocked is a deadlock.
func (m *tableMachine) await(done chan struct{}, what string) bool {
	select {
	case <-done:
		return true
	case <-time.After(20 * time.Second):
	}
	if ok, who := m.sv.C.AllBlocked(); !ok {
		m.c.Inconclusive = what + ": call still running after 20 s with runnable goroutines: " + who
		return false
	}
	select {
	case <-done:
		return true
	default:
	}
	m.viol = kit.Violatef(m.clause+":api-call-hung", "%s: the call did not return although every module goroutine is blocked", what)
	return false
}

func init() {
	desc := "rapid: histories of 10..80 table events against a node with a crafted root ID and 10..40 simulated peers whose IDs are crafted to collide in 1-2 hot buckets (>= 12 per bucket typical), cloned IDs and cloned addresses, IPv4 / v4-mapped / IPv6 (global, link-local, unique-local), one ID on two ports of one IP, private (BEP 42 exempt) and public with secure or insecure IDs, security on in 1/4 of cases: inbound queries (own / zero / root ID, read-only flag), pings and find_node calls the peer answers with its ID / another ID / from another port / with another t / with an error / read-only / not at all (third parties named in the reply), unsolicited responses, AddNode (including the other byte representation of the same IPv4 address), ageing by 1/14/15/16/60/600 minutes, questionable pings of questionable entries (answered or not), probes, and one TableMaintainer pass as last step; under the C06 bias also a vetoing or allowing query hook and answers that arrive after their query's context was cancelled and the call had returned; under the C09 bias read-only queries from known contacts, the node's own find_node calls as liveness evidence, probes sent from the address and under the ID of a table entry, and (with the bundled peer store) a peer of one family announcing itself for the probed infohash first. "
	kit.Register("C05a", desc+"Oracle after every step (quiescence barrier, table snapshot hook): stored bucket = shared-prefix length with the root by an independent bit scan; <= 8 per bucket; no two entries equal in (ID, address); never the root or zero ID; address index mirrors the buckets; NumNodes / Stats().Nodes = entry count; Stats().GoodNodes and the package's good/bad/questionable verdicts = an independent BEP 5 classification of the raw timestamps; Nodes() = multiset of non-bad entries; WriteStatus header agrees. Non-trivial: a full bucket received a newcomer that displaced an entry, or an entry was dropped.",
		[]string{"ageing is done by shifting stored timestamps (VerifAge hook), in whole minutes, so no classification is within a minute of the 15-minute bound"},
		func(t *rapid.T) TableSc { return genTable(t, "c05") }, func(sc TableSc, c *kit.Case) *kit.Violation { return runTable(sc, c, "C05") })
	kit.Register("C06a", desc+"Blocklists in half of the cases. Oracle = transition rules between the snapshots before and after each step, from the harness's own record of what was delivered: every new entry is the non-read-only, non-blocked, secure-when-enforced direct sender of this step's query, of a response that completed a query pending to that address, or the AddNode argument; every vanished entry was bad, or had never answered while this step admitted a responder to its bucket, and was never good; an eligible sender whose bucket had room (fewer than 8, or a displaceable entry) is present afterwards; liveness timestamps move forward and only on messages from that (address, ID). Non-trivial: a full bucket received an eligible newcomer, or an ineligible sender (read-only, blocked, insecure, zero/own ID) was offered.",
		[]string{"questionable pings are applied only to entries that are questionable, as TableMaintainer does", "during the TableMaintainer pass several events happen in one step: completeness and per-step attribution are relaxed, admission and eviction justification are not"},
		func(t *rapid.T) TableSc { return genTable(t, "c06") }, func(sc TableSc, c *kit.Case) *kit.Violation { return runTable(sc, c, "C06") })
	kit.Register("C09a", desc+"Probes: find_node / get_peers / get from IPv4 and IPv6 sources with every want list, target = root / an entry's ID / one bit off an entry / a crafted bucket / random, the method's other ID field absent or set to a different ID; each probe sent 4 times. Oracle per reply against the pre-probe snapshot and the independent classification: `nodes` (26-byte) only to requesters wanting IPv4 and only IPv4 entries, `nodes6` (38-byte) likewise; every contact is a table entry that is good (hence has answered), not the responder, distinct, <= 8; contacts come from buckets at or below the target's bucket (named by the method's own field), a farther bucket is used only if every good contact of the nearer ones is included, and the count is min(8, available). Non-trivial: >= 2 populated buckets at or below the target's with a non-good or other-family entry among them.",
		[]string{"a want list naming neither n4 nor n6 leaves the wanted families open", "the completeness clause applies to get_peers because no peer store is configured here (values are always empty)"},
		func(t *rapid.T) TableSc { return genTable(t, "c09") }, func(sc TableSc, c *kit.Case) *kit.Violation { return runTable(sc, c, "C09") })
}
