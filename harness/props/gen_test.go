package props

import (
	"net"
	"os"

	"pgregory.net/rapid"

	"verifharness/kit"
	"verifharness/refmodel"
)

// ---- basic generators shared by the checks -------------------------------------------------

func genBytesN(t *rapid.T, n int, label string) []byte {
	return rapid.SliceOfN(rapid.Byte(), n, n).Draw(t, label)
}

func genBytes(t *rapid.T, min, max int, label string) []byte {
	return rapid.SliceOfN(rapid.Byte(), min, max).Draw(t, label)
}

func genID(t *rapid.T, label string) (id [20]byte) {
	switch rapid.IntRange(0, 9).Draw(t, label+".kind") {
	case 0:
		// all zero
	case 1:
		for i := range id {
			id[i] = 0xff
		}
	default:
		copy(id[:], genBytesN(t, 20, label))
	}
	return
}

func genRandID(t *rapid.T, label string) (id [20]byte) {
	copy(id[:], genBytesN(t, 20, label))
	return
}

var interestingPrefixLens = []int{0, 1, 2, 3, 7, 8, 9, 79, 80, 158, 159}

// genPrefixLen draws a shared-prefix length biased to byte and word boundaries.
func genPrefixLen(t *rapid.T, label string) int {
	if rapid.Bool().Draw(t, label+".special") {
		return rapid.SampledFrom(interestingPrefixLens).Draw(t, label)
	}
	return rapid.IntRange(0, 159).Draw(t, label)
}

// genIDNear draws an ID related to root: a chosen shared-prefix length, root itself, extremes.
func genIDNear(t *rapid.T, root [20]byte, label string) [20]byte {
	switch rapid.IntRange(0, 11).Draw(t, label+".kind") {
	case 0:
		return root
	case 1:
		return [20]byte{}
	case 2:
		return genRandID(t, label+".rand")
	default:
		n := genPrefixLen(t, label+".cpl")
		return refmodel.WithPrefix(root, n, genRandID(t, label+".tail"))
	}
}

func genIPv4(t *rapid.T, label string) net.IP {
	switch rapid.IntRange(0, 7).Draw(t, label+".kind") {
	case 0:
		return net.IP{10, 0, 0, byte(rapid.IntRange(1, 5).Draw(t, label))}
	case 1:
		return net.IP{192, 168, byte(rapid.IntRange(0, 2).Draw(t, label+".c")), byte(rapid.IntRange(1, 5).Draw(t, label))}
	case 2:
		return net.IP{127, 0, 0, byte(rapid.IntRange(1, 3).Draw(t, label))}
	default:
		b := genBytesN(t, 4, label)
		if b[0] == 0 {
			b[0] = 1
		}
		return net.IP(b)
	}
}

func genIPv6(t *rapid.T, label string) net.IP {
	b := genBytesN(t, 16, label)
	switch rapid.IntRange(0, 5).Draw(t, label+".kind") {
	case 0:
		b[0], b[1] = 0xfe, 0x80
	case 1:
		b[0], b[1] = 0x20, 0x01
	}
	ip := net.IP(b)
	if ip.To4() != nil { // avoid accidental v4-mapped
		b[0] = 0x20
	}
	return ip
}

func genPort(t *rapid.T, label string) int {
	if rapid.Bool().Draw(t, label+".special") {
		return rapid.SampledFrom([]int{1, 2, 80, 6881, 65535}).Draw(t, label)
	}
	return rapid.IntRange(1, 65535).Draw(t, label)
}

// ---- bencode values -------------------------------------------------------------------------

func genBV(t *rapid.T, depth int, label string) refmodel.BV {
	max := 3
	if depth <= 0 {
		max = 1
	}
	switch rapid.IntRange(0, max).Draw(t, label+".kind") {
	case 0:
		return refmodel.BInt(genInt64(t, label+".i"))
	case 1:
		return refmodel.BStr(string(genBytes(t, 0, 12, label+".s")))
	case 2:
		n := rapid.IntRange(0, 4).Draw(t, label+".n")
		l := make([]refmodel.BV, 0, n)
		for i := 0; i < n; i++ {
			l = append(l, genBV(t, depth-1, label+".e"))
		}
		return refmodel.BV{Kind: 'l', L: l}
	default:
		n := rapid.IntRange(0, 4).Draw(t, label+".n")
		seen := map[string]bool{}
		var d []refmodel.BKV
		for i := 0; i < n; i++ {
			k := string(genBytes(t, 0, 6, label+".k"))
			if seen[k] {
				continue
			}
			seen[k] = true
			d = append(d, refmodel.BKV{K: k, V: genBV(t, depth-1, label+".v")})
		}
		return refmodel.BV{Kind: 'd', D: d}
	}
}

func genInt64(t *rapid.T, label string) int64 {
	switch rapid.IntRange(0, 5).Draw(t, label+".kind") {
	case 0:
		return rapid.SampledFrom([]int64{0, 1, -1, 1<<63 - 1, -1 << 63, 1 << 32, 65535, 65536}).Draw(t, label)
	case 1:
		return rapid.Int64().Draw(t, label)
	default:
		return rapid.Int64Range(-5, 20).Draw(t, label)
	}
}

func hexp(b []byte) *kit.Hex { h := kit.Hex(b); return &h }

// uniformInt draws from [0, n) without rapid's bias towards small values (rapid.IntRange favours
// short bit lengths; rapid.Bool is a fair coin). Used where a generator needs a stated distribution.
func uniformInt(t *rapid.T, n int, label string) int {
	if n <= 1 {
		return 0
	}
	nbits := 0
	for 1<<uint(nbits) < n {
		nbits++
	}
	for try := 0; ; try++ {
		v := 0
		for b := 0; b < nbits; b++ {
			if rapid.Bool().Draw(t, label) {
				v |= 1 << uint(b)
			}
		}
		if v < n {
			return v
		}
		if try >= 6 {
			return v % n
		}
	}
}

// pick draws uniformly from a (weighted by repetition) list.
func pick[T any](t *rapid.T, label string, xs ...T) T { return xs[uniformInt(t, len(xs), label)] }

// deep scales the upper size bounds of generated scenarios: 1 in the quick tier, 3 in the thorough
// tier (VERIF_TIER is set by the driver), where half of the cases use the larger bound. Scenarios
// saved by one tier replay unchanged in the other (sizes are part of the scenario).
func deep(t *rapid.T, n int) int {
	if os.Getenv("VERIF_TIER") == "thorough" && rapid.Bool().Draw(t, "deep") {
		return 3 * n
	}
	return n
}
