package props

// C13 — BEP 44 versions only move forward: seq, CAS and expiry.

import (
	"context"
	"crypto/ed25519"
	"fmt"
	"math"
	"net"
	"sort"
	"sync"
	"time"

	"pgregory.net/rapid"

	"github.com/anacrolix/torrent/bencode"

	dht "github.com/anacrolix/dht/v2"
	"github.com/anacrolix/dht/v2/bep44"
	"github.com/anacrolix/dht/v2/krpc"

	"verifharness/kit"
	"verifharness/refmodel"
	"verifharness/simnet"
)

// ---- shared BEP 44 helpers --------------------------------------------------------------------------

// values of every bencode kind, and strings whose bytes spell the encoding of another value of the pool
var c13Values = []string{"5:alpha", "4:beta", "i7e", "l1:a1:be", "3:i7e", "8:l1:a1:be", "d1:ai1ee", "8:d1:ai1ee", "7:5:alpha", "0:"}

// genC13Val draws an index into c13Values: half the time among the first four (so that equal values
// at one seq stay frequent), else among all.
func genC13Val(t *rapid.T, label string) int {
	if rapid.Bool().Draw(t, label+".wide") {
		return uniformInt(t, len(c13Values), label)
	}
	return uniformInt(t, 4, label)
}

type b44key struct {
	pub  ed25519.PublicKey
	priv ed25519.PrivateKey
}

func b44Key(n int) b44key {
	pub, priv := refmodel.Bep44KeyFromSeed(n)
	return b44key{pub, priv}
}

// b44PutArgs builds the `a` dictionary of a mutable put signed by the harness's own BEP 44 code.
func b44PutArgs(sender [20]byte, k b44key, salt []byte, seq int64, cas int64, encV string, token string, sig []byte) *BV {
	v, _, _ := refmodel.Parse([]byte(encV))
	kv := []BKV{{K: "v", V: v}, {K: "seq", V: bint(seq)}, {K: "token", V: bstr(token)}}
	if k.pub != nil {
		if sig == nil {
			sig = refmodel.Bep44Sign(k.priv, salt, seq, []byte(encV))
		}
		kv = append(kv, BKV{K: "k", V: bs(k.pub)}, BKV{K: "sig", V: bs(sig)})
	}
	if len(salt) > 0 {
		kv = append(kv, BKV{K: "salt", V: bs(salt)})
	}
	if cas != 0 {
		kv = append(kv, BKV{K: "cas", V: bint(cas)})
	}
	return mkArgs(sender, kv...)
}

// tokenFor obtains a write token for `from`'s IP through a genuine get.
func (s *Srv) tokenFor(c *kit.Case, from *net.UDPAddr, sender [20]byte, tseq *int) (string, *kit.Violation) {
	*tseq++
	tt := []byte(fmt.Sprintf("tk%d", *tseq))
	outs, ok := s.exchange(c, from, mkQuery(tt, "get", mkArgs(sender, BKV{K: "target", V: bs(make([]byte, 20))})), true)
	if !ok {
		return "", nil
	}
	o, found := replyTo(outs, from, tt)
	if !found {
		return "", kit.Violatef("no-token-issued", "get from %v was not answered (%d datagrams)", from, len(outs))
	}
	r, _ := o.R()
	tk, has := r.Get("token")
	if !has || tk.Kind != 's' {
		return "", kit.Violatef("no-token-issued", "get reply carries no token: %s", o.Describe())
	}
	return tk.S, nil
}

// ---- C13a: sequential histories -----------------------------------------------------------------------

type C13Op struct {
	Kind string // put | get
	Via  string // wire | wrapper | srvput (put only)
	Seq  int64
	// CasMode: none | stored | other
	CasMode string
	CasVal  int64
	Val     int
	HasSeq  bool // get: names a sequence number
	// Rel: the sequence number is the stored one plus Delta (resolved at run time), so that accepted
	// puts stay common however long the history is.
	Rel   bool
	Delta int64
	// StoreFault (put): the backend's read fails (plain error) during this put
	StoreFault bool
}

type C13Sc struct {
	SaltLen int
	Ops     []C13Op
}

var c13Seqs = []int64{0, 1, 2, 3, 4, 5, 6, -1, -2, -7, math.MinInt64, math.MinInt64 + 1, math.MaxInt64, math.MaxInt64 - 1}

func genC13Seq(t *rapid.T, label string) int64 {
	if rapid.IntRange(0, 3).Draw(t, label+".k") == 0 {
		return rapid.SampledFrom(c13Seqs).Draw(t, label)
	}
	return rapid.Int64Range(0, 6).Draw(t, label)
}

func genC13(t *rapid.T) C13Sc {
	sc := C13Sc{SaltLen: rapid.SampledFrom([]int{0, 0, 3, 64}).Draw(t, "saltlen")}
	n := rapid.IntRange(2, deep(t, 30)).Draw(t, "nops")
	for i := 0; i < n; i++ {
		var op C13Op
		if rapid.IntRange(0, 9).Draw(t, "op.kind") < 7 {
			op.Kind = "put"
			op.Via = rapid.SampledFrom([]string{"wire", "wire", "wrapper", "srvput"}).Draw(t, "op.via")
			op.Seq = genC13Seq(t, "op.seq")
			op.Rel = rapid.IntRange(0, 2).Draw(t, "op.rel") > 0
			op.Delta = rapid.SampledFrom([]int64{-1, 0, 0, 1, 1, 1, 2}).Draw(t, "op.delta")
			op.CasMode = rapid.SampledFrom([]string{"none", "none", "stored", "other"}).Draw(t, "op.cas")
			op.CasVal = genC13Seq(t, "op.casval")
			op.Val = genC13Val(t, "op.val")
			op.StoreFault = uniformInt(t, 10, "op.storefault") == 0
		} else {
			op.Kind = "get"
			op.Via = rapid.SampledFrom([]string{"wire", "wire", "wrapper"}).Draw(t, "op.via")
			op.HasSeq = rapid.Bool().Draw(t, "op.hasseq")
			op.Seq = genC13Seq(t, "op.seq")
			// mostly the seq a get names is one below, at, or one above what is stored, wherever that is
			op.Rel = rapid.IntRange(0, 2).Draw(t, "op.rel") > 0
			op.Delta = rapid.SampledFrom([]int64{-1, 0, 0, 1}).Draw(t, "op.delta")
		}
		sc.Ops = append(sc.Ops, op)
	}
	return sc
}

func krpcCode(err error) (int64, bool) {
	switch e := err.(type) {
	case krpc.Error:
		return int64(e.Code), true
	case *krpc.Error:
		return int64(e.Code), true
	}
	return 0, false
}

func codesStr(m map[int64]bool) string {
	var l []int
	for k := range m {
		l = append(l, int(k))
	}
	sort.Ints(l)
	return fmt.Sprint(l)
}

func runC13a(sc C13Sc, c *kit.Case) *kit.Violation {
	sv := newSrv(SrvOpts{NodeID: [20]byte{4, 4}})
	defer sv.Close()
	net1 := newSimNet(sv)
	remote := &net.UDPAddr{IP: net.IP{9, 9, 9, 9}, Port: 999}
	remoteID := [20]byte{0xaa}
	net1.Add(&SimPeer{Addr: remote, ID: remoteID, Handle: func(q SimQuery) []SimReply {
		return []SimReply{{Data: mkResponse([]byte(q.T), stdReturn(remoteID, nil, nil))}}
	}})
	wrapper := bep44.NewWrapper(sv.Store, 2*time.Hour) // a second wrapper over the same underlying store
	key := b44Key(1)
	salt := make([]byte, sc.SaltLen)
	for i := range salt {
		salt[i] = byte('a' + i%26)
	}
	target := refmodel.Bep44MutableTarget(key.pub, salt)
	sender := [20]byte{5, 5}
	from := &net.UDPAddr{IP: net.IP{7, 7, 7, 7}, Port: 7777}
	tseq := 0
	var stored *refmodel.Bep44Stored
	sawOutOfOrder, sawCas := false, false

	for oi, op := range sc.Ops {
		switch op.Kind {
		case "put":
			cas := int64(0)
			switch op.CasMode {
			case "stored":
				if stored != nil {
					cas = stored.Seq
				}
			case "other":
				cas = op.CasVal
			}
			encV := c13Values[op.Val]
			if op.Rel && stored != nil {
				if n := stored.Seq + op.Delta; (op.Delta >= 0) == (n >= stored.Seq) { // no overflow
					op.Seq = n
				} else {
					op.Seq = stored.Seq
				}
			}
			accept, codes, either := refmodel.Bep44Rule(stored, op.Seq, cas, encV)
			if stored != nil && op.Seq <= stored.Seq {
				sawOutOfOrder = true
			}
			if cas != 0 {
				sawCas = true
			}
			what := fmt.Sprintf("op %d: put via %s seq=%d cas=%d v=%q against stored %s", oi, op.Via, op.Seq, cas, encV, describeStored(stored))
			var accepted bool
			var gotCode int64
			switch op.Via {
			case "wire":
				tok, v := sv.tokenFor(c, from, sender, &tseq)
				if v != nil {
					v.Key = "C13:" + v.Key
					return v
				}
				if c.Inconclusive != "" {
					return nil
				}
				tseq++
				tt := []byte(fmt.Sprintf("p%d", tseq))
				if op.StoreFault {
					sv.Store.FailNextGets(1)
				}
				outs, ok := sv.exchange(c, from, mkQuery(tt, "put", b44PutArgs(sender, key, salt, op.Seq, cas, encV, tok, nil)), true)
				if !ok {
					return nil
				}
				o, found := replyTo(outs, from, tt)
				if !found || len(outs) != 1 {
					return kit.Violatef("C13:put-not-answered", "%s: %d datagrams, expected exactly one reply", what, len(outs))
				}
				switch o.Y {
				case "r":
					accepted = true
				case "e":
					gotCode, _ = o.ErrCode()
				default:
					return kit.Violatef("C13:put-not-answered", "%s: answered with %s", what, o.Describe())
				}
			case "wrapper", "srvput":
				var v any
				bv, _, _ := refmodel.Parse([]byte(encV))
				v = bv.ToGo()
				var sig [64]byte
				copy(sig[:], refmodel.Bep44Sign(key.priv, salt, op.Seq, []byte(encV)))
				var k32 [32]byte
				copy(k32[:], key.pub)
				var err error
				if op.StoreFault {
					sv.Store.FailNextGets(1)
				}
				if op.Via == "wrapper" {
					err = wrapper.Put(&bep44.Item{V: v, K: k32, Salt: salt, Sig: sig, Cas: cas, Seq: op.Seq})
				} else {
					res := sv.S.Put(context.Background(), dht.NewAddr(remote), bep44.Put{V: v, K: &k32, Salt: salt, Sig: sig, Cas: cas, Seq: op.Seq}, "tok", dht.QueryRateLimiting{})
					err = res.Err
				}
				if err == nil {
					accepted = true
				} else {
					code, ok := krpcCode(err)
					if !ok && !op.StoreFault {
						return kit.Violatef("C13:unexpected-error", "%s: returned %v", what, err)
					}
					gotCode = code
				}
			}
			if op.StoreFault {
				// The backend could not be read during this put. Refusing it (with whatever error) is always
				// sound; acknowledging it is sound only if the put was acceptable against what is really stored.
				sv.Store.FailNextGets(0)
				c.Label("put-with-failing-store-read")
				if accepted && !accept && !either {
					return kit.Violatef("C13:put-accepted-against-rule-"+codesStr(codes), "%s: the store's read failed during this put; it must be refused with one of %s (or any error), was accepted", what, codesStr(codes))
				}
				if accepted && !either {
					stored = &refmodel.Bep44Stored{Seq: op.Seq, V: encV}
				}
				if it, err := wrapper.Get(target); stored != nil && (err != nil || it.Seq != stored.Seq || string(mustBencode(it.V)) != stored.V) {
					return kit.Violatef("C13:stored-version-wrong", "%s: the store's read failed during this put (accepted=%v); afterwards the store does not hold %s (err=%v)", what, accepted, describeStored(stored), err)
				} else if stored == nil && err == nil {
					return kit.Violatef("C13:stored-version-wrong", "%s: the store's read failed during this put; afterwards the store holds seq=%d although nothing was accepted", what, it.Seq)
				}
				continue
			}
			switch {
			case either:
				c.Label("refresh-with-mismatching-cas")
				if !accepted && gotCode != 301 {
					return kit.Violatef("C13:wrong-error-code", "%s: refused with %d, only 301 applies", what, gotCode)
				}
			case accept:
				if !accepted {
					return kit.Violatef(fmt.Sprintf("C13:valid-put-refused-%d", gotCode), "%s: must be accepted, was refused with error %d", what, gotCode)
				}
			default:
				if accepted {
					return kit.Violatef("C13:put-accepted-against-rule-"+codesStr(codes), "%s: must be refused with one of %s, was accepted", what, codesStr(codes))
				}
				if !codes[gotCode] {
					return kit.Violatef("C13:wrong-error-code", "%s: refused with %d, applicable codes are %s", what, gotCode, codesStr(codes))
				}
			}
			if accepted && !either {
				stored = &refmodel.Bep44Stored{Seq: op.Seq, V: encV}
			}
			c.Label("put-" + op.Via)
			if accepted {
				c.Label("put-accepted")
			} else {
				c.Label(fmt.Sprintf("put-refused-%d", gotCode))
			}
			// an accepted put is what later gets return: read back through the underlying store
			if it, err := wrapper.Get(target); stored != nil {
				if err != nil {
					return kit.Violatef("C13:stored-item-lost", "%s: afterwards the store returns %v for the target", what, err)
				}
				if it.Seq != stored.Seq || string(mustBencode(it.V)) != stored.V {
					return kit.Violatef("C13:stored-version-wrong", "%s: afterwards the store holds seq=%d v=%q, the model %s", what, it.Seq, mustBencode(it.V), describeStored(stored))
				}
			}
		case "get":
			if op.Rel && stored != nil {
				if n := stored.Seq + op.Delta; (op.Delta >= 0) == (n >= stored.Seq) { // no overflow
					op.Seq = n
				} else {
					op.Seq = stored.Seq
				}
			}
			what := fmt.Sprintf("op %d: get via %s (seq arg %v=%d) against stored %s", oi, op.Via, op.HasSeq, op.Seq, describeStored(stored))
			switch op.Via {
			case "wrapper":
				it, err := wrapper.Get(target)
				if stored == nil {
					if err == nil {
						return kit.Violatef("C13:get-served-unstored", "%s: served seq=%d", what, it.Seq)
					}
					continue
				}
				if err != nil {
					return kit.Violatef("C13:stored-item-lost", "%s: %v", what, err)
				}
				if it.Seq != stored.Seq || string(mustBencode(it.V)) != stored.V {
					return kit.Violatef("C13:get-wrong-version", "%s: got seq=%d v=%q", what, it.Seq, mustBencode(it.V))
				}
			case "wire":
				tseq++
				tt := []byte(fmt.Sprintf("g%d", tseq))
				kv := []BKV{{K: "target", V: bs(target[:])}}
				if op.HasSeq {
					kv = append(kv, BKV{K: "seq", V: bint(op.Seq)})
				}
				outs, ok := sv.exchange(c, from, mkQuery(tt, "get", mkArgs(sender, kv...)), true)
				if !ok {
					return nil
				}
				o, found := replyTo(outs, from, tt)
				if !found || o.Y != "r" {
					return kit.Violatef("C13:get-not-answered", "%s: %d datagrams, no response", what, len(outs))
				}
				r, _ := o.R()
				v, hasV := r.Get("v")
				seqv, hasSeq := r.Get("seq")
				if stored == nil {
					if hasV {
						return kit.Violatef("C13:get-served-unstored", "%s: served %s", what, o.Describe())
					}
					continue
				}
				wantV := !op.HasSeq || stored.Seq > op.Seq
				if hasV != wantV {
					return kit.Violatef("C13:get-seq-gating", "%s: value present=%v, expected %v: %s", what, hasV, wantV, o.Describe())
				}
				if hasSeq && (seqv.Kind != 'i' || seqv.I != stored.Seq) {
					return kit.Violatef("C13:get-wrong-version", "%s: reply seq=%v: %s", what, seqv.I, o.Describe())
				}
				if hasV {
					if !hasSeq {
						return kit.Violatef("C13:get-wrong-version", "%s: value without seq: %s", what, o.Describe())
					}
					if string(v.Encode(false)) != stored.V {
						return kit.Violatef("C13:get-wrong-version", "%s: served v=%q: %s", what, v.Encode(false), o.Describe())
					}
					kk, _ := r.Get("k")
					sg, _ := r.Get("sig")
					if !refmodel.Bep44Verify([]byte(kk.S), salt, seqv.I, v.Encode(false), []byte(sg.S)) {
						return kit.Violatef("C13:get-unverifiable", "%s: served item does not verify: %s", what, o.Describe())
					}
				}
				if op.HasSeq {
					c.Label("get-with-seq")
				}
			}
		}
	}
	if sawOutOfOrder && sawCas {
		c.NonTrivial()
	}
	return nil
}

func describeStored(s *refmodel.Bep44Stored) string {
	if s == nil {
		return "(nothing)"
	}
	return fmt.Sprintf("(seq=%d v=%q)", s.Seq, s.V)
}

func mustBencode(v any) []byte {
	b, err := bencode.Marshal(v)
	if err != nil {
		return []byte("<unencodable>")
	}
	return b
}

// ---- C13b: concurrent puts over a yielding store ------------------------------------------------------

type C13Actor struct {
	Via string // wrapper | srvput | wire
	Seq int64
	Val int
	Cas int64
	// StartAfter: number of schedule steps before this actor starts (0 = at once).
	StartAfter int
}

type C13bSc struct {
	// Server: the actors go through one dht.Server (Server.Put and at most one inbound put, which share
	// the server's store wrapper); otherwise through one stand-alone bep44.Wrapper.
	Server   bool
	Initial  *C13Actor // optional item stored before the race
	Actors   []C13Actor
	Schedule []int
}

func genC13b(t *rapid.T) C13bSc {
	var sc C13bSc
	sc.Server = rapid.Bool().Draw(t, "server")
	if rapid.Bool().Draw(t, "initial") {
		sc.Initial = &C13Actor{Seq: rapid.Int64Range(0, 3).Draw(t, "init.seq"), Val: genC13Val(t, "init.val")}
	}
	n := rapid.IntRange(2, 4).Draw(t, "nactors")
	wireUsed := false
	for i := 0; i < n; i++ {
		a := C13Actor{Seq: rapid.Int64Range(0, 6).Draw(t, "a.seq"), Val: genC13Val(t, "a.val")}
		via := "wrapper"
		if sc.Server {
			via = rapid.SampledFrom([]string{"srvput", "srvput", "wire"}).Draw(t, "a.via")
			if via == "wire" {
				if wireUsed {
					via = "srvput"
				}
				wireUsed = true
			}
		}
		a.Via = via
		if rapid.IntRange(0, 3).Draw(t, "a.cas") == 0 {
			a.Cas = rapid.Int64Range(1, 6).Draw(t, "a.casval")
		}
		if rapid.IntRange(0, 3).Draw(t, "a.late") == 0 {
			a.StartAfter = rapid.IntRange(1, 6).Draw(t, "a.startafter")
		}
		sc.Actors = append(sc.Actors, a)
	}
	sc.Schedule = rapid.SliceOfN(rapid.IntRange(0, 7), 0, 24).Draw(t, "schedule")
	return sc
}

type parkedCall struct {
	gid     int64
	what    string
	release chan struct{}
}

// yieldStore parks every call of the underlying store until the harness releases it.
type yieldStore struct {
	inner  bep44.Store
	mu     sync.Mutex
	parked []*parkedCall
	active bool
	trace  []string
}

func (y *yieldStore) park(what string) {
	y.mu.Lock()
	if !y.active {
		y.mu.Unlock()
		return
	}
	p := &parkedCall{gid: simnet.GoID(), what: what, release: make(chan struct{})}
	y.parked = append(y.parked, p)
	y.mu.Unlock()
	<-p.release
}

func (y *yieldStore) Put(i *bep44.Item) error {
	y.park(fmt.Sprintf("Put(seq=%d)", i.Seq))
	return y.inner.Put(i)
}
func (y *yieldStore) Get(t bep44.Target) (*bep44.Item, error) {
	y.park("Get")
	return y.inner.Get(t)
}
func (y *yieldStore) Del(t bep44.Target) error {
	y.park("Del")
	return y.inner.Del(t)
}

func (y *yieldStore) snapshot() []*parkedCall {
	y.mu.Lock()
	defer y.mu.Unlock()
	return append([]*parkedCall(nil), y.parked...)
}

func (y *yieldStore) releaseIdx(i int) string {
	y.mu.Lock()
	p := y.parked[i]
	y.parked = append(y.parked[:i], y.parked[i+1:]...)
	y.mu.Unlock()
	close(p.release)
	return p.what
}

type actorState struct {
	a         C13Actor
	started   bool
	done      chan struct{}
	finished  bool
	err       error
	accepted  bool
	startStep int
	endStep   int
	gid       int64
}

func runC13b(sc C13bSc, c *kit.Case) *kit.Violation {
	ys := &yieldStore{inner: bep44.NewMemory()}
	sv := newSrv(SrvOpts{NodeID: [20]byte{4, 5}, Store: ys})
	defer func() {
		// never leave a parked call behind
		ys.mu.Lock()
		ys.active = false
		for _, p := range ys.parked {
			close(p.release)
		}
		ys.parked = nil
		ys.mu.Unlock()
		sv.Close()
	}()
	net1 := newSimNet(sv)
	remote := &net.UDPAddr{IP: net.IP{9, 9, 9, 9}, Port: 999}
	remoteID := [20]byte{0xaa}
	net1.Add(&SimPeer{Addr: remote, ID: remoteID, Handle: func(q SimQuery) []SimReply {
		return []SimReply{{Data: mkResponse([]byte(q.T), stdReturn(remoteID, nil, nil))}}
	}})
	wrapper := bep44.NewWrapper(sv.Store, 2*time.Hour)
	key := b44Key(2)
	var k32 [32]byte
	copy(k32[:], key.pub)
	target := refmodel.Bep44MutableTarget(key.pub, nil)
	sender := [20]byte{5, 6}
	from := &net.UDPAddr{IP: net.IP{7, 7, 7, 8}, Port: 7778}
	mkItem := func(a C13Actor) *bep44.Item {
		encV := c13Values[a.Val]
		bv, _, _ := refmodel.Parse([]byte(encV))
		var sig [64]byte
		copy(sig[:], refmodel.Bep44Sign(key.priv, nil, a.Seq, []byte(encV)))
		return &bep44.Item{V: bv.ToGo(), K: k32, Sig: sig, Cas: a.Cas, Seq: a.Seq}
	}
	var initSeq *int64
	if sc.Initial != nil {
		if err := wrapper.Put(mkItem(*sc.Initial)); err != nil {
			return kit.Violatef("C13:valid-put-refused", "initial put into an empty store failed: %v", err)
		}
		s := sc.Initial.Seq
		initSeq = &s
	}
	// the wire actor needs a token before the store starts yielding
	tseq := 0
	var wireTok string
	for _, a := range sc.Actors {
		if a.Via == "wire" {
			tok, v := sv.tokenFor(c, from, sender, &tseq)
			if v != nil || c.Inconclusive != "" {
				return nil
			}
			wireTok = tok
		}
	}
	ys.mu.Lock()
	ys.active = true
	ys.mu.Unlock()

	actors := make([]*actorState, len(sc.Actors))
	for i, a := range sc.Actors {
		actors[i] = &actorState{a: a, done: make(chan struct{})}
	}
	step := 0
	wireMark := sv.C.NumOut()
	start := func(st *actorState) {
		st.started = true
		st.startStep = step
		a := st.a
		switch a.Via {
		case "wrapper":
			simnet.Go(func() {
				st.err = wrapper.Put(mkItem(a))
				close(st.done)
			})
		case "srvput":
			simnet.Go(func() {
				it := mkItem(a)
				st.err = sv.S.Put(context.Background(), dht.NewAddr(remote), it.ToPut(), "tok", dht.QueryRateLimiting{}).Err
				close(st.done)
			})
		case "wire":
			sv.C.Inject(from, mkQuery([]byte("wp"), "put", b44PutArgs(sender, key, nil, a.Seq, a.Cas, c13Values[a.Val], wireTok, nil)))
		}
	}
	wireDone := func() (bool, bool, int64) { // (done, accepted, code)
		if o, ok := replyTo(outsFrom(sv.C, wireMark), from, []byte("wp")); ok {
			code, _ := o.ErrCode()
			return true, o.Y == "r", code
		}
		return false, false, 0
	}
	poll := func() {
		for _, st := range actors {
			if !st.started || st.finished {
				continue
			}
			if st.a.Via == "wire" {
				if d, acc, code := wireDone(); d {
					st.finished, st.accepted, st.endStep = true, acc, step
					if !acc {
						st.err = krpc.Error{Code: int(code)}
					}
				}
				continue
			}
			select {
			case <-st.done:
				st.finished, st.accepted, st.endStep = true, st.err == nil, step
			default:
			}
		}
	}
	allDone := func() bool {
		for _, st := range actors {
			if !st.finished {
				return false
			}
		}
		return true
	}
	// settle: wait until every module goroutine is blocked (parked in the store, on a lock, or the
	// serve loop idle) so that the set of parked calls is complete.
	settle := func() bool {
		deadline := time.Now().Add(barrierTimeout)
		streak := 0
		for {
			if ok, _ := sv.C.AllBlocked(); ok {
				streak++
				if streak >= 2 {
					return true
				}
			} else {
				streak = 0
			}
			if time.Now().After(deadline) {
				_, who := sv.C.AllBlocked()
				c.Inconclusive = "concurrent-put schedule did not settle: " + who
				return false
			}
			time.Sleep(20 * time.Microsecond)
		}
	}
	bothGetsBeforePut, overlapped, twoParked := false, false, false
	getsReleased := 0
	putReleased := false
	for _, st := range actors {
		if st.a.StartAfter == 0 {
			start(st)
		}
	}
	for guard := 0; guard < 200; guard++ {
		if !settle() {
			return nil
		}
		poll()
		for _, st := range actors {
			if !st.started && st.a.StartAfter <= step {
				start(st)
			}
		}
		if !settle() {
			return nil
		}
		poll()
		if allDone() {
			break
		}
		parked := ys.snapshot()
		if len(parked) == 0 {
			// nobody at the store: either late starters remain or something is stuck
			pendingStart := false
			for _, st := range actors {
				if !st.started {
					pendingStart = true
				}
			}
			if pendingStart {
				step++
				continue
			}
			// give it a moment: a goroutine between two store calls is runnable, settle() covers that;
			// reaching here means every actor is blocked outside the store: a deadlock.
			if waitFor(2*time.Second, func() bool { poll(); return allDone() || len(ys.snapshot()) > 0 }) {
				continue
			}
			return kit.Violatef("C13:concurrent-put-deadlock", "no store call is pending and not every put has returned (actors %+v)", sc.Actors)
		}
		unfinished := 0
		for _, st := range actors {
			if st.started && !st.finished {
				unfinished++
			}
		}
		if unfinished >= 2 {
			overlapped = true
		}
		if len(parked) >= 2 {
			twoParked = true
		}
		pick := 0
		if step < len(sc.Schedule) {
			pick = sc.Schedule[step] % len(parked)
		}
		what := ys.releaseIdx(pick)
		c.Logf("step %d: released %s of goroutine %d", step, what, parked[pick].gid)
		if what == "Get" && !putReleased {
			getsReleased++
			if getsReleased >= 2 {
				bothGetsBeforePut = true
			}
		} else if what != "Get" {
			putReleased = true
		}
		step++
	}
	poll()
	if !allDone() {
		c.Inconclusive = "concurrent-put schedule did not finish within 200 steps"
		return nil
	}
	ys.mu.Lock()
	ys.active = false
	ys.mu.Unlock()
	final, err := ys.inner.Get(target)
	// oracle
	var maxAcc *int64
	if initSeq != nil {
		maxAcc = initSeq
	}
	type acc struct {
		seq int64
		v   string
	}
	var accepted []acc
	if sc.Initial != nil {
		accepted = append(accepted, acc{sc.Initial.Seq, c13Values[sc.Initial.Val]})
	}
	for _, st := range actors {
		if st.accepted {
			accepted = append(accepted, acc{st.a.Seq, c13Values[st.a.Val]})
			if maxAcc == nil || st.a.Seq > *maxAcc {
				s := st.a.Seq
				maxAcc = &s
			}
		} else if code, ok := krpcCode(st.err); !ok || (code != 301 && code != 302) {
			return kit.Violatef("C13:unexpected-error", "concurrent put %+v failed with %v (only 301/302 can apply)", st.a, st.err)
		}
	}
	desc := func() string {
		s := ""
		for i, st := range actors {
			s += fmt.Sprintf(" [#%d %s seq=%d v=%q cas=%d start@%d end@%d accepted=%v]", i, st.a.Via, st.a.Seq, c13Values[st.a.Val], st.a.Cas, st.startStep, st.endStep, st.accepted)
		}
		if sc.Initial != nil {
			s = fmt.Sprintf(" initial seq=%d v=%q;", sc.Initial.Seq, c13Values[sc.Initial.Val]) + s
		}
		return s
	}
	if maxAcc != nil {
		if err != nil {
			return kit.Violatef("C13:stored-item-lost", "after concurrent puts the store has no item (%v);%s", err, desc())
		}
		fv := string(mustBencode(final.V))
		if final.Seq != *maxAcc {
			return kit.Violatef("C13:stored-seq-decreased", "after concurrent puts the store holds seq=%d although a put with seq=%d was acknowledged;%s", final.Seq, *maxAcc, desc())
		}
		ok := false
		for _, a := range accepted {
			if a.seq == final.Seq && a.v == fv {
				ok = true
			}
		}
		if !ok {
			return kit.Violatef("C13:stored-version-wrong", "after concurrent puts the store holds seq=%d v=%q, which no acknowledged put wrote;%s", final.Seq, fv, desc())
		}
	}
	// two acknowledged puts with one seq must carry one value
	for i := range accepted {
		for j := i + 1; j < len(accepted); j++ {
			if accepted[i].seq == accepted[j].seq && accepted[i].v != accepted[j].v {
				return kit.Violatef("C13:same-seq-two-values", "two puts with seq=%d and different values (%q, %q) were both acknowledged;%s", accepted[i].seq, accepted[i].v, accepted[j].v, desc())
			}
		}
	}
	// real-time order: a put acknowledged after another had completed must not have a lower seq
	for _, a := range actors {
		for _, b := range actors {
			if a != b && a.accepted && b.accepted && a.endStep < b.startStep && b.a.Seq < a.a.Seq {
				return kit.Violatef("C13:stored-seq-decreased", "put seq=%d was acknowledged after put seq=%d had completed;%s", b.a.Seq, a.a.Seq, desc())
			}
		}
	}
	if overlapped {
		c.NonTrivial()
		c.Label("puts-overlapped")
	}
	if bothGetsBeforePut {
		c.Label("two-gets-before-any-put")
	}
	if twoParked {
		c.Label("two-store-calls-pending-at-once")
	}
	c.Label(fmt.Sprintf("actors-%d", len(actors)))
	return nil
}

// ---- C13c: expiry ---------------------------------------------------------------------------------------

type C13cSc struct {
	Via     string // wire | wrapper
	Mutable bool
	Refresh bool
	// Refused: half-way through the lifetime a put that the store must refuse arrives (same seq with
	// another value, or a lower seq): it must not extend the stored item's life
	Refused string // "" | same-seq | lower-seq
}

func genC13c(t *rapid.T) C13cSc {
	sc := C13cSc{Via: rapid.SampledFrom([]string{"wire", "wrapper"}).Draw(t, "via"), Mutable: rapid.Bool().Draw(t, "mutable"), Refresh: rapid.Bool().Draw(t, "refresh")}
	if sc.Mutable && !sc.Refresh {
		sc.Refused = pick(t, "refused", "", "same-seq", "lower-seq")
	}
	return sc
}

func runC13c(sc C13cSc, c *kit.Case) *kit.Violation {
	const exp = 40 * time.Millisecond
	sv := newSrv(SrvOpts{NodeID: [20]byte{4, 6}, Exp: exp})
	defer sv.Close()
	wrapper := bep44.NewWrapper(sv.Store, exp)
	key := b44Key(3)
	encV := "6:expire"
	var it bep44.Item
	it.V = "expire"
	target := refmodel.Bep44ImmutableTarget([]byte(encV))
	if sc.Mutable {
		copy(it.K[:], key.pub)
		copy(it.Sig[:], refmodel.Bep44Sign(key.priv, nil, 1, []byte(encV)))
		it.Seq = 1
		target = refmodel.Bep44MutableTarget(key.pub, nil)
	}
	if err := wrapper.Put(&it); err != nil {
		return kit.Violatef("C13:valid-put-refused", "put into an empty store failed: %v", err)
	}
	if sc.Refresh {
		time.Sleep(exp / 3)
		it2 := it
		if err := wrapper.Put(&it2); err != nil {
			return kit.Violatef("C13:valid-put-refused", "refresh (same seq, same value) refused: %v", err)
		}
	}
	stored := time.Now()
	if sc.Refused != "" {
		time.Sleep(exp / 2)
		other := "7:another"
		it3 := bep44.Item{V: "another", K: it.K, Seq: 1}
		if sc.Refused == "lower-seq" {
			it3.Seq = 0
		}
		copy(it3.Sig[:], refmodel.Bep44Sign(key.priv, nil, it3.Seq, []byte(other)))
		if err := wrapper.Put(&it3); err == nil {
			return kit.Violatef("C13:put-accepted-against-rule-[302]", "a put with seq=%d and another value was accepted over the stored seq=1", it3.Seq)
		}
	}
	if rest := exp + 10*time.Millisecond - time.Since(stored); rest > 0 {
		time.Sleep(rest)
	}
	what := fmt.Sprintf("item (mutable=%v, refreshed=%v, refused put in between=%q) older than the expiry of %v", sc.Mutable, sc.Refresh, sc.Refused, exp)
	switch sc.Via {
	case "wrapper":
		if got, err := wrapper.Get(target); err == nil {
			return kit.Violatef("C13:expired-item-served", "%s still served through the store API: seq=%d", what, got.Seq)
		}
		// the expiry path must leave the store usable: ask again
		again := make(chan error, 1)
		simnet.Go(func() { _, err := wrapper.Get(target); again <- err })
		select {
		case err := <-again:
			if err == nil {
				return kit.Violatef("C13:expired-item-served", "%s served on the second get", what)
			}
		case <-time.After(10 * time.Second):
			if ok, _ := sv.C.AllBlocked(); ok {
				return kit.Violatef("C13:store-wedged-after-expiry", "%s: a second get through the store API never returned (every goroutine blocked)", what)
			}
			c.Inconclusive = "second get after expiry still running"
			return nil
		}
	case "wire":
		from := &net.UDPAddr{IP: net.IP{7, 7, 7, 9}, Port: 7779}
		outs, ok := sv.exchange(c, from, mkQuery([]byte("ge"), "get", mkArgs([20]byte{5, 7}, BKV{K: "target", V: bs(target[:])})), true)
		if !ok {
			return nil
		}
		o, found := replyTo(outs, from, []byte("ge"))
		if !found {
			return kit.Violatef("C13:get-not-answered", "get for an expired item got %d datagrams", len(outs))
		}
		if r, ok := o.R(); ok {
			if _, hasV := r.Get("v"); hasV {
				return kit.Violatef("C13:expired-item-served", "%s still served on the wire: %s", what, o.Describe())
			}
		}
	}
	c.NonTrivial()
	return nil
}

func init() {
	kit.Register("C13a",
		"rapid: sequential histories of 2..30 puts and gets on one mutable target (salt length 0/3/64), through the wire (genuine token), through a second bep44.Wrapper over the same underlying store, and through Server.Put; seq from a dense range 0..6, from {-1, -2, -7, MinInt64, MinInt64+1, MaxInt64, MaxInt64-1} and relative to the stored one; CAS absent / equal to the stored seq / other (negative ones included); 10 values of every bencode kind, among them strings whose bytes spell another value's encoding; gets with and without a seq argument (absolute, or one below / at / one above the stored seq); puts during which the backing store's read fails (refusing is sound; acknowledging only if the put was acceptable against what is really stored). Oracle: independent BEP 44 rule (lower seq, or equal seq with another value => 302; CAS present and != stored seq => 301; both apply => either; otherwise accepted), the stored version read back after every put, get serves exactly the stored version, with v iff no seq was named or stored seq > named seq, and what is served verifies. Non-trivial: the history contains an out-of-order seq and a CAS put.",
		[]string{"cas=0 is 'absent' (the wire type cannot distinguish them)", "a same-seq same-value refresh with a mismatching CAS may be accepted or refused 301"},
		genC13, runC13a)
	kit.Register("C13b",
		"rapid: 2..4 concurrent puts (bep44.Wrapper.Put, Server.Put, and at most one inbound put) on one target, optionally over a pre-stored item and with late starters, over a yielding store whose every Get/Put/Del parks until a generated schedule releases it; the schedule step is taken only when every module goroutine is blocked. Oracle over the observed results: the final stored item was written by an acknowledged put and has the maximum acknowledged seq; two acknowledged puts with one seq carry one value; a put acknowledged after another completed does not have a lower seq; failures are 301/302 only; no deadlock. Non-trivial: a store call was released while at least two puts had started and not yet returned.",
		[]string{"interleavings are owned at the granularity of the underlying store's calls; calls blocked elsewhere (a lock) simply do not appear among the schedulable calls"},
		genC13b, runC13b)
	kit.Register("C13c",
		"rapid: an item (mutable/immutable, optionally refreshed with the same seq and value) is stored with Exp=40ms, optionally followed half-way by a put the store must refuse (same seq other value, lower seq); Exp+10ms after it was stored it must not be served by the wire get nor by the store API (sound: the elapsed time is at least Exp whatever the scheduling).",
		nil, genC13c, runC13c)
}
