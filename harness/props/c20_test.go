package props

// C20 — Outbound traffic never exceeds the configured send budget.

import (
	"context"
	"errors"
	"fmt"
	"net"
	"sort"
	"sync"
	"time"

	"golang.org/x/time/rate"
	"pgregory.net/rapid"

	dht "github.com/anacrolix/dht/v2"
	"github.com/anacrolix/dht/v2/krpc"

	"verifharness/kit"
	"verifharness/simnet"
)

type C20Query struct {
	// RL: default | not-first | not-any | no-wait-first | wait-on-retries
	RL       string
	NumTries int
	Dest     int // index of a simulated node; >= Nodes means an address nobody answers from
	// WriteFails: the socket refuses every datagram of this query
	WriteFails bool
}

type C20Sc struct {
	RateIdx     int // index into c20Rates
	Burst       int
	WaitToReply bool
	Flood       int // inbound queries
	Sources     int
	Methods     []string
	Queries     []C20Query
	Traversal   string // none | bootstrap | announce
	Nodes       int
	// Prelude: this many inbound queries are answered first; then the node is left alone until the
	// limiter has refilled completely, and only then does the scenario proper start (wait-to-reply off)
	Prelude int
	// ShortEvery: every n-th rated datagram is reported by the socket as written one byte short, with
	// no error (0 = never)
	ShortEvery int
	// ZeroAdds: AddNode is called this many times with an all-zero ID (the node then pings the address to
	// learn its ID; nobody opted out of rate limiting for those pings)
	ZeroAdds int
}

var c20Rates = []float64{1e-6, 5, 50, 500, 20}

func genC20(t *rapid.T) C20Sc {
	sc := C20Sc{RateIdx: uniformInt(t, len(c20Rates), "rate"), Burst: pick(t, "burst", 0, 1, 3, 3, 25, 4, 8), WaitToReply: rapid.Bool().Draw(t, "wait")}
	sc.Flood = pick(t, "flood", 0, 10, 40, 150, 600)
	sc.Sources = 1 + uniformInt(t, 200, "sources")
	nm := 1 + uniformInt(t, 3, "nmethods")
	for i := 0; i < nm; i++ {
		sc.Methods = append(sc.Methods, pick(t, "method", "ping", "find_node", "find_node", "get_peers", "get", "nonsense", "announce_peer"))
	}
	sc.Nodes = 1 + uniformInt(t, 8, "nodes")
	nq := uniformInt(t, 12, "nqueries")
	for i := 0; i < nq; i++ {
		sc.Queries = append(sc.Queries, C20Query{RL: pick(t, "q.rl", "default", "default", "not-first", "not-first", "not-any", "no-wait-first", "wait-on-retries"),
			NumTries: 1 + uniformInt(t, 5, "q.tries"), Dest: uniformInt(t, sc.Nodes+3, "q.dest"), WriteFails: uniformInt(t, 5, "q.fail") == 0})
	}
	sc.Traversal = pick(t, "trav", "none", "none", "bootstrap", "announce")
	if uniformInt(t, 3, "hasprelude") == 0 {
		sc.Prelude = 1 + uniformInt(t, 7, "prelude")
		if uniformInt(t, 3, "prelude.binding") > 0 {
			// make the budget after the quiet period the binding constraint: a refill that completes within
			// a second, then a flood well beyond the burst
			sc.Burst, sc.RateIdx, sc.WaitToReply = pick(t, "prelude.burst", 4, 8, 25), pick(t, "prelude.rate", 2, 4), false
			sc.Flood = pick(t, "prelude.flood", 40, 150)
		}
	}
	if uniformInt(t, 4, "short") == 0 {
		sc.ShortEvery = 1 + uniformInt(t, 3, "shortevery")
	}
	if sc.RateIdx != 0 && uniformInt(t, 4, "zeroadds") == 0 {
		// (not with the non-refilling limiter: such a ping would wait for budget beyond the end of the case)
		sc.ZeroAdds = 1 + uniformInt(t, 12, "nzeroadds")
	}
	if sc.WaitToReply && (sc.RateIdx == 0 || (sc.RateIdx < 3 && sc.Flood > 40)) {
		// replies waiting for a token that never comes would outlive the case
		sc.WaitToReply = false
	}
	return sc
}

func runC20(sc C20Sc, c *kit.Case) *kit.Violation {
	r := c20Rates[sc.RateIdx]
	t0 := time.Now()
	lim := rate.NewLimiter(rate.Limit(r), sc.Burst)
	var starting []*net.UDPAddr
	for i := 0; i < 2 && i < sc.Nodes; i++ {
		starting = append(starting, friendlyAddr(i))
	}
	sv := newSrv(SrvOpts{NodeID: [20]byte{0xc2, 0}, Limiter: lim, WaitToReply: sc.WaitToReply, Starting: starting, PeerStore: true})
	defer sv.Close()
	net1 := newSimNet(sv)
	addFriendlyNet(net1, sc.Nodes, nil)
	// classification of queries by the marker the harness put into their arguments
	var mu sync.Mutex
	sendsPerMarker := map[string]int{}
	failMarker := map[string]bool{}
	policy := map[string]string{}
	type rated struct {
		at   time.Time
		what string
	}
	var ratedWrites []rated
	refunds := 0
	// budgetKey names an excess over the budget: the open finding F11 (DESIGN 10.4) over-credits the limiter
	// by at most one token per refused rated write, so an excess within that bound in a run that had such
	// writes is that finding; anything else is a violation of its own
	// ... and it needs a send that waited for budget (held a reservation) and was cancelled: the announce
	// traversal's queries (no deadline, ended by Close) at any rate, or - when a token arrives within the
	// 250 ms the harness gives its queries and the bootstrap - any query or traversal that waits
	mayCancelWaiter := sc.Traversal == "announce"
	if r >= 5 {
		if sc.Traversal != "none" {
			mayCancelWaiter = true
		}
		for _, q := range sc.Queries {
			if q.RL == "default" || q.RL == "wait-on-retries" {
				mayCancelWaiter = true
			}
		}
	}
	budgetKey := func(excess float64) string {
		if refunds > 0 && mayCancelWaiter && excess <= float64(refunds) {
			return "C20:refund-then-cancelled-wait-overcredits"
		}
		return "C20:send-budget-exceeded"
	}
	lastRated := -1
	offered := 0
	net1.FailWrite = func(o simnet.Out, m OutMsg) error {
		mu.Lock()
		defer mu.Unlock()
		isRated := true
		fail := false
		if m.OK && m.Y == "q" {
			if tg, ok := (SimQuery{M: m}).Arg("target"); ok {
				if pol, known := policy[tg.S]; known {
					sendsPerMarker[tg.S]++
					n := sendsPerMarker[tg.S]
					switch pol {
					case "not-any":
						isRated = false
					case "not-first":
						isRated = n > 1
					}
					fail = failMarker[tg.S]
				}
			}
		}
		if fail {
			if isRated {
				refunds++ // the library hands this send's token back to the limiter
			}
			return errors.New("simulated socket write failure")
		}
		if isRated {
			ratedWrites = append(ratedWrites, rated{o.At, m.Describe()})
			lastRated = o.Seq
		}
		return nil
	}
	if sc.ShortEvery > 0 {
		c.Label("short-writes")
		sv.C.ShortWrite = func(o simnet.Out) bool {
			mu.Lock()
			defer mu.Unlock()
			return o.Seq == lastRated && len(ratedWrites)%sc.ShortEvery == 0
		}
	}
	sender := [20]byte{0xf1}
	// 1. the flood: one half before the outbound queries start, the other after they have returned
	flood := func(from, to int) {
		for i := from; i < to; i++ {
			s := i % sc.Sources
			src := &net.UDPAddr{IP: net.IP{99, byte(s >> 8), byte(s), 1 + byte(i%3)}, Port: 2000 + s}
			method := sc.Methods[i%len(sc.Methods)]
			sv.C.Inject(src, mkQuery([]byte(fmt.Sprintf("f%d", i)), method, mkArgs(sender, BKV{K: "target", V: bs(make([]byte, 20))}, BKV{K: "info_hash", V: bs(make([]byte, 20))})))
			offered++
		}
	}
	// 0. prelude and quiet period: at the second barrier nothing is between taking a token and writing, and
	// the limiter holds at most `burst` tokens, so from then on the budget is burst + rate x elapsed again
	tQuiet := t0
	if refill := float64(sc.Burst) / r; sc.Prelude > 0 && !sc.WaitToReply && sc.Burst > 0 && refill <= 1.3 {
		for i := 0; i < sc.Prelude; i++ {
			src := &net.UDPAddr{IP: net.IP{97, 0, 0, byte(1 + i)}, Port: 1900 + i}
			sv.C.Inject(src, mkQuery([]byte(fmt.Sprintf("p%d", i)), "ping", mkArgs(sender)))
		}
		if err := sv.C.Quiesce(30 * time.Second); err != nil {
			c.Inconclusive = err.Error()
			return nil
		}
		time.Sleep(time.Duration((refill + 0.03) * float64(time.Second)))
		if err := sv.C.Quiesce(30 * time.Second); err != nil {
			c.Inconclusive = err.Error()
			return nil
		}
		tQuiet = time.Now()
		c.Label("prelude-then-refill")
	}
	flood(0, sc.Flood/2)
	for i := 0; i < sc.ZeroAdds; i++ {
		sv.S.AddNode(krpc.NodeInfo{Addr: krpc.NodeAddr{IP: net.IP{96, 0, 0, byte(1 + i)}, Port: 9600 + i}})
		offered++
	}
	if sc.ZeroAdds > 0 {
		c.Label("addnode-with-unknown-id")
	}
	// 2. outbound queries, concurrently with the flood
	var wg sync.WaitGroup
	type qout struct {
		q   C20Query
		res dht.QueryResult
		m   string
	}
	results := make([]qout, len(sc.Queries))
	for i, q := range sc.Queries {
		var marker [20]byte
		copy(marker[:], fmt.Sprintf("c20-marker-%02d", i))
		mu.Lock()
		policy[string(marker[:])] = q.RL
		failMarker[string(marker[:])] = q.WriteFails
		mu.Unlock()
		dest := friendlyAddr(q.Dest)
		if q.Dest >= sc.Nodes {
			dest = &net.UDPAddr{IP: net.IP{98, 1, 1, byte(q.Dest)}, Port: 9800}
		}
		rl := dht.QueryRateLimiting{}
		switch q.RL {
		case "not-first":
			rl.NotFirst = true
		case "not-any":
			rl.NotAny = true
		case "no-wait-first":
			rl.NoWaitFirst = true
		case "wait-on-retries":
			rl.WaitOnRetries = true
		}
		offered += q.NumTries
		wg.Add(1)
		i, q := i, q
		go func() {
			defer wg.Done()
			ctx, cancel := context.WithTimeout(context.Background(), 250*time.Millisecond)
			defer cancel()
			res := sv.S.Query(ctx, dht.NewAddr(dest), "find_node", dht.QueryInput{MsgArgs: krpc.MsgArgs{Target: marker}, RateLimiting: rl, NumTries: q.NumTries})
			results[i] = qout{q, res, string(marker[:])}
		}()
	}
	switch sc.Traversal {
	case "bootstrap":
		wg.Add(1)
		go func() {
			defer wg.Done()
			ctx, cancel := context.WithTimeout(context.Background(), 250*time.Millisecond)
			defer cancel()
			sv.S.BootstrapContext(ctx)
		}()
	case "announce":
		wg.Add(1)
		go func() {
			defer wg.Done()
			a, err := sv.S.Announce([20]byte{0xa2}, 2020, false)
			if err != nil {
				return
			}
			go func() { time.Sleep(250 * time.Millisecond); a.Close() }()
			for range a.Peers {
			}
			<-a.Finished()
		}()
	}
	done := make(chan struct{})
	go func() { wg.Wait(); close(done) }()
	select {
	case <-done:
	case <-time.After(40 * time.Second):
		if ok, who := sv.C.AllBlocked(); !ok {
			c.Inconclusive = "outbound operations still running after 40 s with runnable goroutines: " + who
			return nil
		}
		return kit.Violatef("C20:operation-hung", "outbound queries/traversal did not return although every module goroutine is blocked (limiter rate %g burst %d)", r, sc.Burst)
	}
	flood(sc.Flood/2, sc.Flood)
	if err := sv.C.Quiesce(30 * time.Second); err != nil {
		c.Inconclusive = err.Error()
		return nil
	}
	mu.Lock()
	defer mu.Unlock()
	// the prefix bound: the k-th rated write happened no earlier than the budget allows
	sort.SliceStable(ratedWrites, func(i, j int) bool { return ratedWrites[i].at.Before(ratedWrites[j].at) })
	for _, base := range []time.Time{t0, tQuiet} {
		k := 0
		for _, w := range ratedWrites {
			if w.at.Before(base) {
				continue
			}
			k++
			allowed := float64(sc.Burst) + r*w.at.Sub(base).Seconds() + 1e-6
			// Tolerance: +1 for the limiter's float rounding, and rate x 20 ms because golang.org/x/time/rate itself
			// over-issues under preemption: Allow() reads the clock before it takes the limiter's lock, a caller that
			// is descheduled in between moves the limiter's clock backwards, and the next caller is credited that
			// interval a second time (seen once in 6 400 thorough-tier cases on a saturated machine: 36 sends where
			// 34.9 + 1 were due, rate 500/s). With the non-refilling limiter the tolerance is zero.
			if float64(k) > allowed+1+r*0.02 {
				since := "the limiter was created"
				if base != t0 {
					since = "a quiescent instant at which the limiter had been left alone long enough to be full"
				}
				return kit.Violatef(budgetKey(float64(k)-(allowed+1+r*0.02)), "rated datagram #%d since %s was written %.6f s after it (rate %g/s, burst %d); the budget allows at most %.3f by then: %s", k, since, w.at.Sub(base).Seconds(), r, sc.Burst, allowed, w.what)
			}
		}
	}
	if sc.RateIdx == 0 && len(ratedWrites) > sc.Burst {
		return kit.Violatef(budgetKey(float64(len(ratedWrites)-sc.Burst)), "%d rated datagrams were written with a burst of %d and no refill (%d rated sends were refused by the socket): %s", len(ratedWrites), sc.Burst, refunds, ratedWrites[sc.Burst].what)
	}
	// a query that may not wait for budget fails without sending when there is none
	for i, qo := range results {
		n := sendsPerMarker[qo.m]
		if n > qo.q.NumTries {
			return kit.Violatef("C20:too-many-sends", "query #%d (policy %s, NumTries %d) was written %d times", i, qo.q.RL, qo.q.NumTries, n)
		}
	}
	if offered >= 2*(sc.Burst+1) && (sc.RateIdx <= 1 || sc.Flood >= 150) {
		c.NonTrivial()
	}
	c.Label(fmt.Sprintf("rate-%g", r))
	c.Label(fmt.Sprintf("rated-writes-%d", bucketCount(len(ratedWrites))))
	if sc.WaitToReply {
		c.Label("wait-to-reply")
	}
	return nil
}

func init() {
	kit.Register("C20a",
		"rapid: a node with its own limiter (rate 1e-6 / 5 / 20 / 50 / 500 per second, burst 0 / 1 / 3 / 4 / 8 / 25, wait-to-reply on or off; every n-th rated write reported one byte short by the socket in a quarter of the runs; in a third of the runs a prelude of 1..7 answered pings followed by a pause that refills the limiter completely; AddNode calls with unknown IDs) receives a flood of 0..600 inbound queries of mixed methods from 1..200 spoofed sources while up to 11 outbound queries (1..5 tries each; rate-limiting policy default / NotFirst / NotAny / NoWaitFirst / WaitOnRetries; answered, unanswered, or with every socket write failing) and optionally a bootstrap or announce traversal run concurrently. Each harness query carries a marker, so the harness knows which sends are exempt. Oracle: with t0 taken before the limiter was created and o_k the instant the k-th rated datagram (every response and error, every query send not exempted by its policy) reached the socket, k <= burst + rate x (o_k - t0) (+1 rounding, + rate x 20 ms for the limiter library's own clock slack under preemption) for every k - sound under arbitrary scheduling delay because all k tokens were necessarily acquired within [t0, o_k]; with rate 1e-6 at most `burst` rated datagrams ever; no query is written more often than NumTries; everything returns (deadlock detector). Non-trivial: the offered load is at least twice the budget.",
		[]string{"failed socket writes are not counted as sent (the limiter takes the token back)", "sliding windows over observed times are not used: a delayed goroutine can bunch writes without the limiter having been exceeded"},
		genC20, runC20)
}
