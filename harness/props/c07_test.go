package props

// C07 — A query completes only with the reply that matches it.

import (
	"context"
	"errors"
	"fmt"
	"net"
	"sync"
	"time"

	"pgregory.net/rapid"

	dht "github.com/anacrolix/dht/v2"
	"github.com/anacrolix/dht/v2/int160"
	"github.com/anacrolix/dht/v2/krpc"

	"verifharness/kit"
	"verifharness/refmodel"
	"verifharness/simnet"
)

type C07Q struct {
	Dest int
	API  string // query | ping | findnode | getpeers | get
	// Held: the query's first datagram is parked inside the socket write until a release event.
	Held bool
	// WriteFails: the socket refuses this query's datagram (after the parking, if Held): the call fails
	// without anything having been sent
	WriteFails bool
}

type C07Ev struct {
	Kind    string // start | dgram | cancel | release
	Q       int    // which query (start: index; others: index among started queries, mod)
	Variant string // correct | correct-error | wrong-port | wrong-ip | mapped | t-inc | t-prefix | t-ext | t-empty | t-other | dup
	Other   int
	// Last: the event refers to the most recently started query instead of Q
	Last bool
}

type C07Sc struct {
	Dual  bool
	Dests []Src
	Qs    []C07Q
	Evs   []C07Ev
}

var c07Variants = []string{"correct", "correct", "correct-error", "wrong-port", "wrong-port-low-bit", "port-digit-to-t", "t-digit-to-port", "wrong-zone", "wrong-ip", "mapped", "t-inc", "t-prefix", "t-ext", "t-empty", "t-other", "t-other", "dup", "dup", "query-same-t", "overlong-t"}

func genC07(t *rapid.T) C07Sc {
	sc := C07Sc{Dual: rapid.Bool().Draw(t, "dual")}
	nd := rapid.IntRange(1, 4).Draw(t, "ndests")
	// two ports per scenario: adjacent ones from all over the 16-bit range
	portA := pick(t, "d.porta", 6881, 6881, 1, 255, 256, 0x7fff, 0x8000, 55296, 55555, 57342, 65532, 65533, 65534)
	ports := []int{portA, portA + 1}
	seen := map[string]bool{}
	for len(sc.Dests) < nd {
		var s Src
		// tiny pool: same IP / other port and same port / other IP are frequent
		port := rapid.SampledFrom(ports).Draw(t, "d.port")
		if sc.Dual && rapid.Bool().Draw(t, "d.v6") {
			ip := net.ParseIP("2001:db8::1").To16()
			ip[15] = byte(rapid.IntRange(1, 2).Draw(t, "d.host"))
			s = Src{IP: kit.Hex(ip), Port: port}
			if uniformInt(t, 3, "d.linklocal") == 0 {
				// a link-local destination: the scope zone is part of the address
				ip[0], ip[1], ip[2], ip[3] = 0xfe, 0x80, 0, 0
				s = Src{IP: kit.Hex(ip), Port: port, Zone: pick(t, "d.zone", "eth0", "eth1")}
			}
		} else {
			ip := net.IP{9, 8, 7, byte(rapid.IntRange(1, 2).Draw(t, "d.host"))}
			if sc.Dual {
				ip = ip.To16()
			}
			s = Src{IP: kit.Hex(ip), Port: port}
		}
		if seen[s.String()] {
			if len(seen) >= 4 {
				break
			}
			continue
		}
		seen[s.String()] = true
		sc.Dests = append(sc.Dests, s)
	}
	nq := rapid.IntRange(1, deep(t, 10)).Draw(t, "nqueries")
	for i := 0; i < nq; i++ {
		sc.Qs = append(sc.Qs, C07Q{Dest: rapid.IntRange(0, len(sc.Dests)-1).Draw(t, "q.dest"),
			API:  rapid.SampledFrom([]string{"query", "query", "query", "ping", "findnode", "getpeers", "get"}).Draw(t, "q.api"),
			Held: rapid.IntRange(0, 4).Draw(t, "q.held") == 0, WriteFails: uniformInt(t, 6, "q.writefails") == 0})
	}
	started := 0
	n := rapid.IntRange(nq, nq+deep(t, 50)).Draw(t, "nevents")
	for i := 0; i < n; i++ {
		remainingStarts := nq - started
		roll := rapid.IntRange(0, 9).Draw(t, "ev.kind")
		switch {
		case started == 0 || (remainingStarts > 0 && (roll < 3 || n-i <= remainingStarts)):
			sc.Evs = append(sc.Evs, C07Ev{Kind: "start", Q: started})
			if sc.Qs[started].Held && rapid.Bool().Draw(t, "ev.heldchain") {
				// the abandoned-query shape: cancel and reply while the sender is parked, then release
				chain := []C07Ev{{Kind: "cancel", Last: true}, {Kind: "dgram", Variant: "correct", Last: true}}
				if rapid.Bool().Draw(t, "ev.chainorder") {
					chain[0], chain[1] = chain[1], chain[0]
				}
				if rapid.Bool().Draw(t, "ev.chainrelease") {
					chain = append(chain, C07Ev{Kind: "release", Last: true})
				}
				sc.Evs = append(sc.Evs, chain...)
			}
			started++
		case roll < 8:
			sc.Evs = append(sc.Evs, C07Ev{Kind: "dgram", Q: rapid.IntRange(0, 31).Draw(t, "ev.q"), Variant: rapid.SampledFrom(c07Variants).Draw(t, "ev.variant"), Other: rapid.IntRange(0, 31).Draw(t, "ev.other")})
		case roll < 9:
			sc.Evs = append(sc.Evs, C07Ev{Kind: "cancel", Q: rapid.IntRange(0, 31).Draw(t, "ev.q")})
		default:
			sc.Evs = append(sc.Evs, C07Ev{Kind: "release", Q: rapid.IntRange(0, 31).Draw(t, "ev.q")})
		}
	}
	return sc
}

type c07res struct {
	res dht.QueryResult
}

type c07q struct {
	spec     C07Q
	dest     *net.UDPAddr
	t        string
	cancel   context.CancelFunc
	hasCtx   bool
	done     chan c07res
	started  bool
	returned bool
	// model
	held      bool   // currently parked in the socket write
	popped    bool   // a matching datagram has consumed the transaction
	expect    string // "" (still waiting) | "reply:<marker>" | "canceled"
	release   chan struct{}
	correctAt []byte // bytes of the first correct reply delivered (for duplicates)
}

func runC07(sc C07Sc, c *kit.Case) *kit.Violation {
	sv := newSrv(SrvOpts{NodeID: [20]byte{0xc7}})
	defer sv.Close()
	sv.C.DelayHook = func(int64, bool) time.Duration { return time.Hour }
	qs := make([]*c07q, len(sc.Qs))
	for i, q := range sc.Qs {
		qs[i] = &c07q{spec: q, dest: sc.Dests[q.Dest].UDP(), done: make(chan c07res, 1), release: make(chan struct{})}
	}
	// arrival of the next query datagram at the socket
	var mu sync.Mutex
	failT := map[string]bool{} // transaction IDs whose datagrams the socket refuses
	var starting *c07q
	arrived := make(chan string, 1)
	sv.C.BeforeWrite = func(to *net.UDPAddr, data []byte) {
		v, _, err := refmodel.Parse(data)
		if err != nil {
			return
		}
		if y, _ := v.Get("y"); y.S != "q" {
			return
		}
		mu.Lock()
		q := starting
		starting = nil
		mu.Unlock()
		if q == nil {
			return
		}
		t, _ := v.Get("t")
		if q.spec.WriteFails {
			mu.Lock()
			failT[t.S] = true
			mu.Unlock()
		}
		arrived <- t.S
		if q.spec.Held {
			<-q.release
		}
	}
	sv.C.OnWrite = func(o simnet.Out) (bool, error) {
		v, _, err := refmodel.Parse(o.Data)
		if err != nil {
			return false, nil
		}
		if y, _ := v.Get("y"); y.S != "q" {
			return false, nil
		}
		tv, _ := v.Get("t")
		mu.Lock()
		fail := failT[tv.S]
		mu.Unlock()
		if fail {
			return false, errors.New("simulated socket write failure")
		}
		return false, nil
	}
	defer func() {
		// never leave a parked sender or a pending call behind
		for _, q := range qs {
			if q.started && q.held {
				q.held = false
				close(q.release)
			}
			if q.cancel != nil {
				q.cancel()
			}
		}
	}()
	var startedIdx []int
	markerSeq := 0
	nextMarker := func() [20]byte {
		markerSeq++
		var m [20]byte
		copy(m[:], fmt.Sprintf("marker-%011d", markerSeq))
		m[19] = 0x5a
		return m
	}
	nearMissWithTwoOutstanding := false

	pendingCount := func() int {
		n := 0
		for _, q := range qs {
			if q.started && !q.returned && !q.popped {
				n++
			}
		}
		return n
	}
	// verify: after a barrier, exactly the queries the model expects have returned, with the expected result
	verify := func(what string) *kit.Violation {
		for i, q := range qs {
			if !q.started || q.returned {
				// a returned query must not return twice (channel is buffered 1 and written once)
				continue
			}
			shouldReturn := q.expect != "" && !q.held
			var got *c07res
			select {
			case r := <-q.done:
				got = &r
			default:
			}
			if got == nil && shouldReturn {
				// negative evidence: grace wait
				c.Label("grace-wait")
				select {
				case r := <-q.done:
					got = &r
				case <-time.After(2 * time.Second):
				}
			}
			switch {
			case got == nil && shouldReturn:
				if ok, who := sv.C.AllBlocked(); !ok {
					c.Inconclusive = "query did not return yet and goroutines are runnable: " + who
					return nil
				}
				return kit.Violatef("C07:query-not-completed", "%s: query #%d (%s to %v, t=%q) should have returned with %s but is still blocked", what, i, q.spec.API, q.dest, q.t, q.expect)
			case got != nil && !shouldReturn:
				return kit.Violatef("C07:query-completed-by-wrong-datagram", "%s: query #%d (%s to %v, t=%q) returned (err=%v, reply id=%q) although no datagram from its destination with its transaction ID was delivered", what, i, q.spec.API, q.dest, q.t, got.res.Err, replyMarker(got.res))
			case got != nil:
				q.returned = true
				mu.Lock()
				delete(failT, q.t) // a later query may legitimately be given this ID again
				mu.Unlock()
				if q.expect == "error" {
					if got.res.Err == nil {
						return kit.Violatef("C07:query-completed-by-wrong-datagram", "%s: query #%d (t=%q to %v) never got its datagram onto the wire (the socket refused it) and no datagram with its transaction ID was delivered, yet it returned a reply (marker %q)", what, i, q.t, q.dest, replyMarker(got.res))
					}
				} else if q.expect == "canceled" {
					if !errors.Is(got.res.Err, context.Canceled) {
						return kit.Violatef("C07:cancelled-query-got-reply", "%s: query #%d was cancelled before any matching reply; it returned err=%v reply=%q", what, i, got.res.Err, replyMarker(got.res))
					}
				} else {
					want := q.expect[len("reply:"):]
					if got.res.Err != nil || replyMarker(got.res) != want {
						return kit.Violatef("C07:query-returned-other-reply", "%s: query #%d (t=%q to %v) should return the datagram marked %q, returned err=%v marker=%q", what, i, q.t, q.dest, want, got.res.Err, replyMarker(got.res))
					}
				}
			}
		}
		st, sv1, ok := sv.stats(c, "C07", what)
		if !ok {
			return sv1
		}
		if n, want := st.OutstandingTransactions, pendingCount(); n != want {
			// a query that has just returned deregisters under the server lock before returning, so this is exact
			return kit.Violatef("C07:pending-transactions-disagree", "%s: the node reports %d outstanding transactions, the model %d", what, n, want)
		}
		return nil
	}

	startQuery := func(i int) *kit.Violation {
		q := qs[i]
		ctx, cancel := context.WithCancel(context.Background())
		q.cancel = cancel
		addr := dht.NewAddr(q.dest)
		mu.Lock()
		starting = q
		mu.Unlock()
		go func() {
			var res dht.QueryResult
			switch q.spec.API {
			case "ping":
				res = sv.S.Ping(q.dest)
			case "findnode":
				res = sv.S.FindNode(addr, int160.FromByteArray([20]byte{1, byte(i)}), dht.QueryRateLimiting{})
			case "getpeers":
				q.hasCtx = true
				res = sv.S.GetPeers(ctx, addr, int160.FromByteArray([20]byte{2, byte(i)}), false, dht.QueryRateLimiting{})
			case "get":
				q.hasCtx = true
				res = sv.S.Get(ctx, addr, [20]byte{3, byte(i)}, nil, dht.QueryRateLimiting{})
			default:
				q.hasCtx = true
				res = sv.S.Query(ctx, addr, "ping", dht.QueryInput{MsgArgs: krpc.MsgArgs{Target: [20]byte{4, byte(i)}}})
			}
			q.done <- c07res{res}
		}()
		select {
		case q.t = <-arrived:
		case r := <-q.done:
			// the call returned before its query was ever handed to the socket
			if r.res.Err == nil {
				return kit.Violatef("C07:query-completed-by-wrong-datagram", "query #%d (%s to %v) returned a reply (marker %q) before its own datagram had been written: no datagram can have matched it", i, q.spec.API, q.dest, replyMarker(r.res))
			}
			c.Inconclusive = fmt.Sprintf("query #%d returned %v before sending", i, r.res.Err)
			return nil
		case <-time.After(10 * time.Second):
			c.Inconclusive = "query datagram did not reach the socket within 10 s"
			return nil
		}
		q.hasCtx = q.spec.API == "getpeers" || q.spec.API == "get" || q.spec.API == "query"
		q.started = true
		q.held = q.spec.Held
		if q.spec.WriteFails && !q.held {
			q.expect, q.popped = "error", true // its only datagram is refused: it fails, and nothing can complete it
			c.Label("write-fails")
		}
		startedIdx = append(startedIdx, i)
		// transaction IDs of simultaneously outstanding queries are pairwise distinct
		for j, o := range qs {
			if j != i && o.started && !o.returned && o.t == q.t {
				return kit.Violatef("C07:transaction-id-reused", "queries #%d and #%d are outstanding at the same time with the same transaction ID %q", j, i, q.t)
			}
		}
		return nil
	}

	for ei, ev := range sc.Evs {
		what := fmt.Sprintf("event %d %s", ei, ev.Kind)
		if ev.Last && len(startedIdx) > 0 {
			ev.Q = len(startedIdx) - 1
		}
		switch ev.Kind {
		case "start":
			if v := startQuery(ev.Q); v != nil {
				return v
			}
			if c.Inconclusive != "" {
				return nil
			}
			what += fmt.Sprintf(" #%d (%s to %v held=%v)", ev.Q, qs[ev.Q].spec.API, qs[ev.Q].dest, qs[ev.Q].spec.Held)
		case "cancel":
			if len(startedIdx) == 0 {
				continue
			}
			q := qs[startedIdx[ev.Q%len(startedIdx)]]
			if !q.hasCtx || q.returned {
				continue
			}
			q.cancel()
			if q.expect == "" {
				q.expect = "canceled"
			}
			what += fmt.Sprintf(" #%d", startedIdx[ev.Q%len(startedIdx)])
			c.Label("cancel")
		case "release":
			if len(startedIdx) == 0 {
				continue
			}
			q := qs[startedIdx[ev.Q%len(startedIdx)]]
			if !q.held {
				continue
			}
			q.held = false
			close(q.release)
			if q.spec.WriteFails {
				if q.expect == "" {
					q.expect = "error"
				}
				q.popped = true
				c.Label("write-fails-after-parking")
			}
			what += fmt.Sprintf(" #%d", startedIdx[ev.Q%len(startedIdx)])
			c.Label("release-held")
		case "dgram":
			if len(startedIdx) == 0 {
				continue
			}
			qi := startedIdx[ev.Q%len(startedIdx)]
			q := qs[qi]
			from := &net.UDPAddr{IP: append(net.IP(nil), q.dest.IP...), Port: q.dest.Port, Zone: q.dest.Zone}
			t := []byte(q.t)
			marker := nextMarker()
			isErr := false
			var payload []byte
			switch ev.Variant {
			case "correct":
			case "correct-error":
				isErr = true
			case "wrong-port":
				from.Port = 1 + q.dest.Port%65535
			case "wrong-port-low-bit":
				from.Port = q.dest.Port ^ 1
				if from.Port == 0 {
					from.Port = 2
				}
			case "port-digit-to-t":
				// the last decimal digit of the port moved in front of the transaction ID: "ip:688" + "1…"
				// reads like "ip:6881" + "…" to anything that glues address and ID together
				t = append([]byte{byte('0' + q.dest.Port%10)}, t...)
				from.Port = q.dest.Port / 10
				if from.Port == 0 {
					from.Port = 7
				}
			case "t-digit-to-port":
				if len(t) > 0 && t[0] >= '0' && t[0] <= '9' && q.dest.Port*10+int(t[0]-'0') <= 65535 {
					from.Port = q.dest.Port*10 + int(t[0]-'0')
					t = t[1:]
				} else {
					from.Port = 1 + q.dest.Port%65535
				}
			case "wrong-zone":
				// the same link-local address and port, reached over another interface
				if q.dest.Zone == "eth0" {
					from.Zone = "eth1"
				} else if q.dest.Zone != "" {
					from.Zone = "eth0"
				} else {
					from.Port = 1 + q.dest.Port%65535
				}
			case "wrong-ip":
				from.IP[len(from.IP)-1] ^= 3
			case "mapped":
				if v4 := from.IP.To4(); v4 != nil {
					if len(from.IP) == 4 {
						from.IP = v4.To16()
					} else {
						from.IP = v4
					}
				}
			case "t-inc":
				if len(t) > 0 {
					t = append([]byte(nil), t...)
					t[len(t)-1]++
				} else {
					t = []byte{1}
				}
			case "t-prefix":
				if len(t) > 0 {
					t = t[:len(t)-1]
				}
			case "t-ext":
				t = append(append([]byte(nil), t...), 0)
			case "t-empty":
				t = nil
			case "t-other":
				o := qs[startedIdx[ev.Other%len(startedIdx)]]
				t = []byte(o.t)
			case "dup":
				if q.correctAt == nil {
					continue
				}
				payload = q.correctAt
			case "query-same-t":
				// a QUERY from the queried address that happens to carry the pending transaction ID: it is not a
				// reply, must complete nothing, and is itself answered
				payload = mkQuery(t, "ping", mkArgs(marker))
			case "overlong-t":
				// the same number in a non-minimal varint encoding is a different transaction ID
				if len(t) > 0 && t[len(t)-1] < 0x80 {
					t = append(append([]byte(nil), t[:len(t)-1]...), t[len(t)-1]|0x80, 0)
				} else {
					t = append(append([]byte(nil), t...), 0x80, 0)
				}
			}
			if payload == nil {
				if isErr {
					payload = mkError(t, 201, string(marker[:]))
				} else {
					payload = mkResponse(t, stdReturn(marker, nil, nil))
				}
			}
			// model: which pending query, if any, does (from, t) name?
			var hit *c07q
			hitIdx := -1
			sameAddrOutstanding := 0
			for j, o := range qs {
				if o.started && !o.returned && o.dest.String() == q.dest.String() {
					sameAddrOutstanding++
				}
				if payload != nil && (ev.Variant == "dup" || ev.Variant == "query-same-t") {
					continue
				}
				if o.started && !o.returned && !o.popped && o.dest.String() == from.String() && o.t == string(t) {
					hit, hitIdx = o, j
				}
			}
			if ev.Variant == "dup" {
				// the duplicate names (q.dest, q.t): it matches only if that transaction is still registered
				if q.started && !q.returned && !q.popped {
					hit, hitIdx = q, qi
				}
				v, _, _ := refmodel.Parse(payload)
				if r, ok := v.Get("r"); ok {
					if id, ok := r.Get("id"); ok {
						copy(marker[:], id.S)
					}
				}
			}
			if hit == nil && sameAddrOutstanding >= 2 {
				nearMissWithTwoOutstanding = true
			}
			if hit != nil {
				hit.popped = true
				if hit.expect == "" {
					hit.expect = "reply:" + string(marker[:])
				}
				if hit.correctAt == nil {
					hit.correctAt = payload
				}
				c.Label("dgram-completes")
			} else {
				c.Label("dgram-near-miss-" + ev.Variant)
			}
			what += fmt.Sprintf(" %s aimed at #%d (from %v t=%q) -> model: completes #%d", ev.Variant, qi, from, t, hitIdx)
			outMark := sv.C.NumOut()
			sv.C.Inject(from, payload)
			if ev.Variant == "query-same-t" {
				if !sv.barrier(c) {
					return nil
				}
				if _, ok := replyTo(outsFrom(sv.C, outMark), from, t); !ok {
					waitFor(2*time.Second, func() bool { _, ok := replyTo(outsFrom(sv.C, outMark), from, t); return ok })
					if _, ok := replyTo(outsFrom(sv.C, outMark), from, t); !ok {
						return kit.Violatef("C07:query-mistaken-for-reply", "%s: an inbound query from %v carrying the transaction ID of an outstanding query was not answered as a query", what, from)
					}
				}
			}
		}
		if v := sv.barrierOrWedged(c, "C07", what); v != nil || c.Inconclusive != "" {
			return v
		}
		c.Logf("%s", what)
		if v := verify(what); v != nil || c.Inconclusive != "" {
			return v
		}
	}
	// wind down: release parked senders, cancel what can be cancelled, answer what cannot
	for _, q := range qs {
		if q.started && q.held {
			q.held = false
			close(q.release)
			if q.spec.WriteFails {
				if q.expect == "" {
					q.expect = "error"
				}
				q.popped = true
			}
		}
	}
	if !sv.barrier(c) {
		return nil
	}
	if v := verify("after releasing the held senders"); v != nil || c.Inconclusive != "" {
		return v
	}
	for i, q := range qs {
		if !q.started || q.returned || q.expect != "" {
			continue
		}
		if q.hasCtx {
			q.cancel()
			q.expect = "canceled"
		} else {
			m := nextMarker()
			q.popped = true
			q.expect = "reply:" + string(m[:])
			sv.C.Inject(q.dest, mkResponse([]byte(q.t), stdReturn(m, nil, nil)))
		}
		if !sv.barrier(c) {
			return nil
		}
		if v := verify(fmt.Sprintf("wind-down of query #%d", i)); v != nil || c.Inconclusive != "" {
			return v
		}
	}
	if n := sv.S.Stats().OutstandingTransactions; n != 0 {
		return kit.Violatef("C07:pending-transactions-disagree", "after every query returned the node still reports %d outstanding transactions", n)
	}
	if nearMissWithTwoOutstanding {
		c.NonTrivial()
	}
	return nil
}

func replyMarker(r dht.QueryResult) string {
	if r.Reply.R != nil {
		return string(r.Reply.R.ID[:])
	}
	if r.Reply.E != nil {
		return r.Reply.E.Msg
	}
	return ""
}

func init() {
	kit.Register("C07a",
		"rapid: 1..10 outbound queries (Query, Ping, FindNode, GetPeers, Get) to 1..4 destinations from a tiny pool (same IP / other port, same port / other IP, IPv4, v4-mapped, IPv6, link-local with a scope zone; two adjacent ports drawn from all over the 16-bit range), some with their first datagram parked inside the socket write, some refused by the socket (also after the parking), all with a one-hour virtual resend delay, interleaved with up to 50 events: start, cancel, release, and datagrams - the correct reply or error for query j; j's transaction ID from another port / another IP / the other byte form of the same IPv4 address; the right address with t+1, a prefix, an extension, the empty string or another live query's transaction ID; duplicates of an earlier correct reply; the port's last decimal digit moved into the transaction ID and back; the same link-local address on another zone; an inbound query carrying the transaction ID. Every crafted reply carries a unique marker. Oracle (model: a query completes exactly when the first datagram from its destination address with its transaction ID is delivered while its transaction is registered): after each event and a quiescence barrier exactly the queries the model names have returned, each with the marked datagram (or context.Canceled); the node's outstanding-transaction count equals the model's; transaction IDs of simultaneously outstanding queries are distinct; at the end cancelling returns context.Canceled for every query the model says is still incomplete. Non-trivial: a near-miss datagram arrived while >= 2 queries were outstanding to that address.",
		[]string{"the 4-byte and v4-mapped forms of one IPv4 address are the same address (same IP and port as reported)", "a reply that arrives after its query was cancelled but before the (parked) sender let the query return is lost, not delivered to anyone"},
		genC07, runC07)
}
