package props

// C03b — the "run loop has looked but not yet slept" interleaving of a lookup.
//
// The lookup's run loop decides under its lock whether to offer the stalled signal, releases the
// lock, and only then blocks in a select that offers it. The VerifBeforeSelect hook lets the harness
// hold the run loop exactly there, add contacts (AddNodes returns), start a receiver on Stalled(),
// and let the run loop go: the property demands that a stall report obtained by a receive that began
// after AddNodes returned accounts for the added contacts.

import (
	"context"
	"fmt"
	"net/netip"
	"sync"
	"sync/atomic"
	"time"

	"github.com/anacrolix/generics"
	"pgregory.net/rapid"

	"github.com/anacrolix/dht/v2/int160"
	"github.com/anacrolix/dht/v2/krpc"
	"github.com/anacrolix/dht/v2/traversal"
	"github.com/anacrolix/dht/v2/types"

	"verifharness/kit"
	"verifharness/simnet"
)

type C03bSc struct {
	K, Alpha int
	Seeds    int
	WithIDs  bool
	Rounds   int
}

func genC03b(t *rapid.T) C03bSc {
	return C03bSc{K: 1 + uniformInt(t, 8, "k"), Alpha: 1 + uniformInt(t, 4, "alpha"), Seeds: 1 + uniformInt(t, 5, "seeds"),
		WithIDs: rapid.Bool().Draw(t, "withids"), Rounds: 4 + uniformInt(t, 5, "rounds")}
}

var c03bMu sync.Mutex // the hook is a package variable of the library: one C03b case at a time

func runC03b(sc C03bSc, c *kit.Case) *kit.Violation {
	c03bMu.Lock()
	defer c03bMu.Unlock()
	defer func() { traversal.VerifBeforeSelect = nil }()
	conn := simnet.New(nil) // only for its goroutine inspection
	staleRounds, decidedRounds := 0, 0
	var firstStale string
	for round := 0; round < sc.Rounds; round++ {
		var armed atomic.Bool
		parked := make(chan struct{}, 1)
		release := make(chan struct{})
		var theOp atomic.Pointer[traversal.Operation]
		traversal.VerifBeforeSelect = func(op *traversal.Operation, offeringStall bool) {
			if op != theOp.Load() || !offeringStall || !armed.CompareAndSwap(true, false) {
				return
			}
			parked <- struct{}{}
			<-release
		}
		var mu sync.Mutex
		started := 0
		hold := make(chan struct{})
		var target [20]byte
		target[0] = byte(round)
		op := traversal.Start(traversal.OperationInput{
			Target: target, K: sc.K, Alpha: sc.Alpha,
			DoQuery: func(ctx context.Context, addr krpc.NodeAddr) traversal.QueryResult {
				mu.Lock()
				started++
				n := started
				mu.Unlock()
				<-hold // no query returns before the harness says so: until then a stall report is impossible
				var id [20]byte
				id[0], id[19] = 0x80, byte(n)
				return traversal.QueryResult{ResponseFrom: &krpc.NodeInfo{ID: id, Addr: addr}, ClosestData: "tok"}
			},
		})
		theOp.Store(op)
		cleanup := func() {
			select {
			case <-hold:
			default:
				close(hold)
			}
			select {
			case <-release:
			default:
				close(release)
			}
			op.Stop()
			select {
			case <-op.Stopped():
			case <-time.After(10 * time.Second):
			}
		}
		// The empty lookup is genuinely stalled. Taking that (legitimate) report makes the run loop go
		// round: it looks again under its lock, still finds nothing to do, releases the lock - and is held
		// by the hook with a fresh stall offer in hand.
		select {
		case <-op.Stalled(): // unarmed: the run loop is past its first look whatever the scheduling
		case <-time.After(10 * time.Second):
			cleanup()
			c.Inconclusive = "empty lookup did not report stalled within 10 s"
			return nil
		}
		armed.Store(true)
		isParked := false
		select {
		case <-parked: // it was on its way round when the hook got armed
			isParked = true
		case <-op.Stalled(): // it slept with the offer: this sends it round once more
		case <-time.After(10 * time.Second):
			cleanup()
			c.Inconclusive = "empty lookup did not report stalled a second time within 10 s"
			return nil
		}
		if !isParked {
			select {
			case <-parked:
			case <-time.After(10 * time.Second):
				cleanup()
				c.Inconclusive = "run loop did not reach the hook within 10 s"
				return nil
			}
		}
		var seeds []types.AddrMaybeId
		for i := 0; i < sc.Seeds; i++ {
			ami := types.AddrMaybeId{Addr: krpc.NodeAddrPort{AddrPort: netip.AddrPortFrom(netip.AddrFrom4([4]byte{10, 3, byte(round), byte(i + 1)}), uint16(1000+i))}}
			if sc.WithIDs {
				var id [20]byte
				id[0], id[19] = 0x40, byte(i)
				ami.Id = generics.Some(int160.FromByteArray(id))
			}
			seeds = append(seeds, ami)
		}
		// the run loop is held between releasing its lock and its select, a stall offer in hand
		added := op.AddNodes(seeds)
		got := make(chan struct{}, 1)
		simnet.Go(func() {
			select {
			case <-op.Stalled():
				got <- struct{}{}
			case <-hold:
			}
		})
		// give the receiver time to block on the channel, then let the run loop enter its select
		deadline := time.Now().Add(5 * time.Millisecond)
		for time.Now().Before(deadline) {
			if ok, _ := conn.AllBlocked(); ok {
				break
			}
			time.Sleep(50 * time.Microsecond)
		}
		close(release)
		decidedRounds++
		select {
		case <-got:
			mu.Lock()
			n := started
			mu.Unlock()
			staleRounds++
			if firstStale == "" {
				firstStale = fmt.Sprintf("round %d: AddNodes added %d contacts and returned, then a receive on Stalled() began and obtained a stall report although none of them had been queried and returned (%d queries started, all still held by the harness)", round, added, n)
			}
		case <-time.After(30 * time.Millisecond):
			// the run loop took the wake-up: it must now be querying the new contacts
		}
		cleanup()
	}
	c.Label(fmt.Sprintf("window-rounds-%d", bucketCount(decidedRounds)))
	if decidedRounds > 0 {
		c.NonTrivial()
	}
	if staleRounds > 0 {
		c.Label("stale-stall-observed")
		return kit.Violatef("C03:stale-stall-after-addnodes", "in %d of %d rounds (K=%d Alpha=%d, %d contacts, ids=%v): %s", staleRounds, decidedRounds, sc.K, sc.Alpha, sc.Seeds, sc.WithIDs, firstStale)
	}
	return nil
}

func init() {
	kit.Register("C03b",
		"rapid: lookups (K 1..8, Alpha 1..4) whose run loop is held by the VerifBeforeSelect hook at the point where it has decided, under its lock, to offer the stalled signal, has released the lock and has not yet blocked in its select; the harness then adds 1..5 contacts (with or without IDs), waits for AddNodes to return, starts a receiver on Stalled(), and releases the run loop; 4..8 rounds per case; every DoQuery is held by the harness, so no genuine stall can be reported before the harness releases them. Oracle: a receive on Stalled() that began after AddNodes returned must not succeed while the added contacts are unqueried. Non-trivial: at least one round reached the window.",
		[]string{"the receiver is given up to 5 ms to block on the channel before the run loop is released; if it has not, the round cannot show the defect (never a false alarm)"},
		genC03b, runC03b)
}
