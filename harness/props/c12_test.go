package props

// C12 — BEP 44 store never accepts or serves a forged or oversized item.

import (
	"context"
	"crypto/sha1"
	"fmt"
	"net"
	"sort"
	"time"

	"pgregory.net/rapid"

	dht "github.com/anacrolix/dht/v2"
	"github.com/anacrolix/dht/v2/bep44"
	"github.com/anacrolix/dht/v2/exts/getput"

	"verifharness/kit"
	"verifharness/refmodel"
)

// makeValue builds a canonical bencoded value whose encoding is exactly (or, where impossible, as
// close as possible to) encLen bytes.
func makeValue(kind string, encLen int, fill byte) string {
	pad := func(n int) string {
		b := make([]byte, n)
		for i := range b {
			b[i] = 'a' + (fill+byte(i))%26
		}
		return string(b)
	}
	str := func(l int) string { return fmt.Sprintf("%d:%s", l, pad(l)) }
	best := ""
	try := func(s string) bool {
		if len(s) == encLen {
			best = s
			return true
		}
		if best == "" || abs(len(s)-encLen) < abs(len(best)-encLen) {
			best = s
		}
		return false
	}
	for l := max0(encLen - 12); l <= encLen; l++ {
		var s string
		switch kind {
		case "list":
			s = "l" + str(l) + "i7ee"
		case "dict":
			s = "d1:k" + str(l) + "e"
		default:
			s = str(l)
		}
		if try(s) {
			return s
		}
		if kind == "str" { // parity fallback: a list holding the string
			if try("l" + str(l) + "e") {
				return best
			}
		}
	}
	return best
}

func abs(x int) int {
	if x < 0 {
		return -x
	}
	return x
}

func max0(x int) int {
	if x < 0 {
		return 0
	}
	return x
}

type C12Put struct {
	Key     int // 0 = immutable, 1..3 = key index
	SaltLen int
	EncLen  int
	VKind   string
	Fill    int
	SigMode string // valid | other-salt | other-seq | other-value | other-key | bitflip | zero
	SigPos  int
	// Reput: present the key, salt, seq and value of the last accepted mutable put again (a refresh),
	// with this op's signature mode
	Reput bool
}

type C12Op struct {
	Kind string // put | get | race (a get and a valid updating put for one stored mutable item, back to back)
	Via  string // wire | wrapper | srvput
	Put  C12Put
	// get: Ref picks one of the targets put so far (mod); Unrelated asks for a target nobody put.
	Ref       int
	Unrelated bool
}

type C12Sc struct {
	Ops []C12Op
}

var c12SaltLens = []int{0, 0, 1, 63, 64, 65, 200}
var c12EncLens = []int{3, 10, 100, 997, 998, 999, 1000, 1001, 1002, 1003, 1500, 6000}

func genC12(t *rapid.T) C12Sc {
	var sc C12Sc
	n := rapid.IntRange(1, deep(t, 14)).Draw(t, "nops")
	for i := 0; i < n; i++ {
		var op C12Op
		if rapid.IntRange(0, 9).Draw(t, "op.kind") < 6 {
			op.Kind = "put"
			op.Via = rapid.SampledFrom([]string{"wire", "wire", "wire", "wrapper", "srvput"}).Draw(t, "op.via")
			p := C12Put{Key: rapid.IntRange(0, 3).Draw(t, "p.key"), VKind: rapid.SampledFrom([]string{"str", "list", "dict"}).Draw(t, "p.vkind"), Fill: rapid.IntRange(0, 25).Draw(t, "p.fill")}
			if rapid.Bool().Draw(t, "p.nearlimit") {
				p.EncLen = rapid.IntRange(996, 1004).Draw(t, "p.enclen")
			} else {
				p.EncLen = rapid.SampledFrom(c12EncLens).Draw(t, "p.enclen")
			}
			if p.Key != 0 {
				p.SaltLen = rapid.SampledFrom(c12SaltLens).Draw(t, "p.saltlen")
				p.SigMode = rapid.SampledFrom([]string{"valid", "valid", "valid", "other-salt", "other-seq", "other-value", "other-key", "bitflip", "zero"}).Draw(t, "p.sigmode")
				p.SigPos = rapid.IntRange(0, 511).Draw(t, "p.sigpos")
				p.Reput = uniformInt(t, 4, "p.reput") == 0
			}
			op.Put = p
		} else if uniformInt(t, 5, "op.race") == 0 {
			op.Kind = "race"
			op.Ref = rapid.IntRange(0, 31).Draw(t, "op.ref")
		} else {
			op.Kind = "get"
			op.Via = rapid.SampledFrom([]string{"wire", "wire", "wrapper"}).Draw(t, "op.via")
			op.Ref = rapid.IntRange(0, 31).Draw(t, "op.ref")
			op.Unrelated = rapid.IntRange(0, 4).Draw(t, "op.unrelated") == 0
		}
		sc.Ops = append(sc.Ops, op)
	}
	return sc
}

type c12Target struct {
	target  [20]byte
	mutable bool
	pub     []byte
	salt    []byte
	// last accepted version (nil if none accepted yet)
	seq  int64
	encV string
	has  bool
	// keyIdx: which harness key pair (b44Key(10+keyIdx)) the target belongs to
	keyIdx int
}

func c12Salt(n int) []byte {
	s := make([]byte, n)
	for i := range s {
		s[i] = byte('s' + i%7)
	}
	return s
}

func runC12a(sc C12Sc, c *kit.Case) *kit.Violation {
	sv := newSrv(SrvOpts{NodeID: [20]byte{0xc1, 2}})
	defer sv.Close()
	net1 := newSimNet(sv)
	remote := &net.UDPAddr{IP: net.IP{9, 9, 9, 8}, Port: 998}
	remoteID := [20]byte{0xab}
	net1.Add(&SimPeer{Addr: remote, ID: remoteID, Handle: func(q SimQuery) []SimReply {
		return []SimReply{{Data: mkResponse([]byte(q.T), stdReturn(remoteID, nil, nil))}}
	}})
	wrapper := bep44.NewWrapper(sv.Store, 2*time.Hour)
	sender := [20]byte{5, 0xc}
	from := &net.UDPAddr{IP: net.IP{7, 7, 6, 6}, Port: 7766}
	tseq := 0
	targets := map[[20]byte]*c12Target{}
	var order [][20]byte
	nearLimit, wrongTuple := false, false
	type lastPut struct {
		keyIdx, saltLen int
		seq             int64
		encV            string
	}
	var last *lastPut

	for oi, op := range sc.Ops {
		switch op.Kind {
		case "put":
			p := op.Put
			encV := makeValue(p.VKind, p.EncLen, byte(p.Fill))
			seq := int64(0)
			var key b44key
			var salt []byte
			var sig []byte
			tgt := refmodel.Bep44ImmutableTarget([]byte(encV))
			mutable := p.Key != 0
			if mutable {
				key = b44Key(10 + p.Key)
				salt = c12Salt(p.SaltLen)
				seq = int64(oi + 1) // strictly increasing along the history: seq/CAS rules never interfere
				if p.Reput && last != nil {
					// same seq and same value as the stored item: a refresh, which the seq rule admits
					key, salt, seq, encV = b44Key(10+last.keyIdx), c12Salt(last.saltLen), last.seq, last.encV
					p.Key, p.SaltLen = last.keyIdx, last.saltLen
					c.Label("reput-" + p.SigMode)
				}
				tgt = refmodel.Bep44MutableTarget(key.pub, salt)
				switch p.SigMode {
				case "valid":
					sig = refmodel.Bep44Sign(key.priv, salt, seq, []byte(encV))
				case "other-salt":
					sig = refmodel.Bep44Sign(key.priv, append(append([]byte(nil), salt...), 'x'), seq, []byte(encV))
				case "other-seq":
					sig = refmodel.Bep44Sign(key.priv, salt, seq+1, []byte(encV))
				case "other-value":
					sig = refmodel.Bep44Sign(key.priv, salt, seq, []byte(makeValue(p.VKind, len(encV), byte(p.Fill+1))+"x"))
				case "other-key":
					sig = refmodel.Bep44Sign(b44Key(20+p.Key).priv, salt, seq, []byte(encV))
				case "bitflip":
					sig = refmodel.Bep44Sign(key.priv, salt, seq, []byte(encV))
					sig[(p.SigPos/8)%64] ^= 1 << uint(p.SigPos%8)
				case "zero":
					sig = make([]byte, 64)
				}
				if p.SigMode != "valid" {
					wrongTuple = true
				}
			}
			if len(encV) >= 998 && len(encV) <= 1002 || mutable && (p.SaltLen >= 63 && p.SaltLen <= 65) {
				nearLimit = true
			}
			codes := map[int64]bool{}
			if len(encV) > 1000 {
				codes[205] = true
			}
			if mutable {
				if len(salt) > 64 {
					codes[207] = true
				}
				if !refmodel.Bep44Verify(key.pub, salt, seq, []byte(encV), sig) {
					codes[206] = true
				}
			}
			valid := len(codes) == 0
			what := fmt.Sprintf("op %d: put via %s (mutable=%v, %d-byte value, %d-byte salt, signature %q)", oi, op.Via, mutable, len(encV), len(salt), p.SigMode)
			putsBefore := sv.Store.Puts()
			var accepted bool
			var gotCode int64
			switch op.Via {
			case "wire":
				tok, v := sv.tokenFor(c, from, sender, &tseq)
				if v != nil {
					v.Key = "C12:" + v.Key
					return v
				}
				if c.Inconclusive != "" {
					return nil
				}
				tseq++
				tt := []byte(fmt.Sprintf("p%d", tseq))
				outs, ok := sv.exchange(c, from, mkQuery(tt, "put", b44PutArgs(sender, key, salt, seq, 0, encV, tok, sig)), true)
				if !ok {
					return nil
				}
				o, found := replyTo(outs, from, tt)
				if !found || len(outs) != 1 {
					return kit.Violatef("C12:put-not-answered", "%s: %d datagrams, expected exactly one reply", what, len(outs))
				}
				if o.Y == "r" {
					accepted = true
				} else {
					gotCode, _ = o.ErrCode()
				}
			case "wrapper", "srvput":
				bv, _, _ := refmodel.Parse([]byte(encV))
				it := &bep44.Item{V: bv.ToGo(), Salt: salt, Seq: seq}
				if mutable {
					copy(it.K[:], key.pub)
					copy(it.Sig[:], sig)
				}
				var err error
				if op.Via == "wrapper" {
					err = wrapper.Put(it)
				} else {
					mark := sv.C.NumOut()
					err = sv.S.Put(context.Background(), dht.NewAddr(remote), it.ToPut(), "tok", dht.QueryRateLimiting{}).Err
					if err != nil && sv.C.NumOut() != mark {
						return kit.Violatef("C12:invalid-item-sent", "%s: Server.Put failed with %v but still wrote a datagram", what, err)
					}
				}
				if err == nil {
					accepted = true
				} else if code, ok := krpcCode(err); ok {
					gotCode = code
				} else {
					return kit.Violatef("C12:unexpected-error", "%s: %v", what, err)
				}
			}
			if valid && !accepted {
				return kit.Violatef("C12:valid-put-refused", "%s: valid item refused with error %d", what, gotCode)
			}
			if !valid {
				if accepted {
					return kit.Violatef("C12:invalid-item-accepted-"+codesStr(codes), "%s: must be refused with one of %s but was accepted", what, codesStr(codes))
				}
				if !codes[gotCode] {
					return kit.Violatef("C12:wrong-error-code", "%s: refused with %d, applicable codes are %s", what, gotCode, codesStr(codes))
				}
				if n := sv.Store.Puts(); n != putsBefore {
					return kit.Violatef("C12:rejected-put-touched-store", "%s: refused, yet the underlying store saw %d Put call(s)", what, n-putsBefore)
				}
			}
			if accepted {
				ct := targets[tgt]
				if ct == nil {
					ct = &c12Target{target: tgt, mutable: mutable, pub: key.pub, salt: salt, keyIdx: p.Key}
					targets[tgt] = ct
					order = append(order, tgt)
				}
				ct.seq, ct.encV, ct.has = seq, encV, true
				if mutable {
					last = &lastPut{p.Key, p.SaltLen, seq, encV}
				}
			}
			c.Label("put-" + op.Via)
			if valid {
				c.Label("put-valid")
			} else {
				c.Label("put-invalid-" + codesStr(codes))
			}
		case "race":
			// a get and a valid update of the same stored mutable item arrive back to back: whatever version
			// the get is answered with must be a version that verifies
			var ct *c12Target
			for k := 0; k < len(order); k++ {
				if x := targets[order[(op.Ref+k)%len(order)]]; x.mutable && x.has && len(x.salt) <= 64 {
					ct = x
					break
				}
			}
			if ct == nil {
				continue
			}
			key := b44Key(10 + ct.keyIdx)
			tok, v := sv.tokenFor(c, from, sender, &tseq)
			if v != nil {
				v.Key = "C12:" + v.Key
				return v
			}
			if c.Inconclusive != "" {
				return nil
			}
			newSeq, newV := int64(oi+1), fmt.Sprintf("7:race%03d", oi%1000)
			asker := &net.UDPAddr{IP: net.IP{7, 7, 6, 7}, Port: 7767}
			tseq++
			gt, pt := []byte(fmt.Sprintf("rg%d", tseq)), []byte(fmt.Sprintf("rp%d", tseq))
			mark := sv.C.NumOut()
			sv.C.Inject(asker, mkQuery(gt, "get", mkArgs(sender, BKV{K: "target", V: bs(ct.target[:])})))
			sv.C.Inject(from, mkQuery(pt, "put", b44PutArgs(sender, key, ct.salt, newSeq, 0, newV, tok, nil)))
			if !sv.barrier(c) {
				return nil
			}
			outs := outsFrom(sv.C, mark)
			if len(outs) < 2 {
				waitFor(2*time.Second, func() bool { return len(outsFrom(sv.C, mark)) >= 2 })
				outs = outsFrom(sv.C, mark)
			}
			what := fmt.Sprintf("op %d: get and updating put (seq %d -> %d) for target %x back to back", oi, ct.seq, newSeq, ct.target[:4])
			po, pfound := replyTo(outs, from, pt)
			g, gfound := replyTo(outs, asker, gt)
			if !pfound || po.Y != "r" {
				return kit.Violatef("C12:valid-put-refused", "%s: the valid update was not answered with a response (%d datagrams)", what, len(outs))
			}
			oldSeq, oldV := ct.seq, ct.encV
			ct.seq, ct.encV = newSeq, newV
			last = &lastPut{ct.keyIdx, len(ct.salt), newSeq, newV}
			if !gfound || g.Y != "r" {
				return kit.Violatef("C12:get-not-answered", "%s: the get was not answered with a response", what)
			}
			r, _ := g.R()
			gv, hasV := r.Get("v")
			if !hasV {
				return kit.Violatef("C12:accepted-item-not-served", "%s: the get reply has no value: %s", what, g.Describe())
			}
			kk, _ := r.Get("k")
			sg, _ := r.Get("sig")
			sq, _ := r.Get("seq")
			enc := gv.Encode(false)
			if refmodel.Bep44MutableTarget([]byte(kk.S), ct.salt) != ct.target || !refmodel.Bep44Verify([]byte(kk.S), ct.salt, sq.I, enc, []byte(sg.S)) {
				return kit.Violatef("C12:served-unverifiable", "%s: the get was answered with (seq=%d, v=%q), which does not verify under the item's key and salt: %s", what, sq.I, enc, g.Describe())
			}
			if !(sq.I == oldSeq && string(enc) == oldV) && !(sq.I == newSeq && string(enc) == newV) {
				return kit.Violatef("C12:served-other-than-accepted", "%s: the get was answered with (seq=%d, v=%q), neither the old (seq=%d, v=%q) nor the new version", what, sq.I, enc, oldSeq, oldV)
			}
			c.Label("get-racing-update")
		case "get":
			var tgt [20]byte
			var ct *c12Target
			if op.Unrelated || len(order) == 0 {
				tgt = sha1.Sum([]byte(fmt.Sprintf("unrelated-%d", op.Ref)))
			} else {
				tgt = order[op.Ref%len(order)]
				ct = targets[tgt]
			}
			what := fmt.Sprintf("op %d: get via %s for target %x (known=%v)", oi, op.Via, tgt[:4], ct != nil)
			switch op.Via {
			case "wrapper":
				it, err := wrapper.Get(tgt)
				if ct == nil {
					if err == nil {
						return kit.Violatef("C12:served-under-wrong-target", "%s: the store serves an item (seq=%d) nobody put there", what, it.Seq)
					}
					continue
				}
				if err != nil {
					return kit.Violatef("C12:accepted-item-not-served", "%s: %v", what, err)
				}
				ev := mustBencode(it.V)
				if v := c12Verify(ct, tgt, ev, it.K[:], it.Sig[:], it.Seq, it.Salt, what); v != nil {
					return v
				}
			case "wire":
				tseq++
				tt := []byte(fmt.Sprintf("g%d", tseq))
				outs, ok := sv.exchange(c, from, mkQuery(tt, "get", mkArgs(sender, BKV{K: "target", V: bs(tgt[:])})), true)
				if !ok {
					return nil
				}
				o, found := replyTo(outs, from, tt)
				if !found || o.Y != "r" {
					return kit.Violatef("C12:get-not-answered", "%s: %d datagrams, no response", what, len(outs))
				}
				r, _ := o.R()
				v, hasV := r.Get("v")
				if ct == nil {
					if hasV {
						return kit.Violatef("C12:served-under-wrong-target", "%s: served %s", what, o.Describe())
					}
					continue
				}
				if !hasV {
					return kit.Violatef("C12:accepted-item-not-served", "%s: reply has no value: %s", what, o.Describe())
				}
				kk, _ := r.Get("k")
				sg, _ := r.Get("sig")
				sq, _ := r.Get("seq")
				if viol := c12Verify(ct, tgt, v.Encode(false), []byte(kk.S), []byte(sg.S), sq.I, ct.salt, what+": "+o.Describe()); viol != nil {
					return viol
				}
			}
			c.Label("get-" + op.Via)
		}
	}
	if nearLimit || wrongTuple {
		c.NonTrivial()
	}
	return nil
}

// c12Verify: what is served under tgt must re-verify under tgt, independently of the library.
func c12Verify(ct *c12Target, tgt [20]byte, encV, k, sig []byte, seq int64, salt []byte, what string) *kit.Violation {
	if len(encV) > 1000 {
		return kit.Violatef("C12:served-oversized", "%s: served value is %d bytes", what, len(encV))
	}
	if ct.mutable {
		if refmodel.Bep44MutableTarget(k, ct.salt) != tgt {
			return kit.Violatef("C12:served-under-wrong-target", "%s: served key %x does not hash (with the item's salt) to the target", what, k)
		}
		if !refmodel.Bep44Verify(k, ct.salt, seq, encV, sig) {
			return kit.Violatef("C12:served-unverifiable", "%s: served (seq=%d, v=%q) does not verify under its key and salt", what, seq, encV)
		}
	} else if refmodel.Bep44ImmutableTarget(encV) != tgt {
		return kit.Violatef("C12:served-under-wrong-target", "%s: served immutable value %q does not hash to the target", what, encV)
	}
	if ct.has && (string(encV) != ct.encV || (ct.mutable && seq != ct.seq)) {
		return kit.Violatef("C12:served-other-than-accepted", "%s: served (seq=%d, v=%q) but the last accepted put was (seq=%d, v=%q)", what, seq, encV, ct.seq, ct.encV)
	}
	return nil
}

// ---- C12c: client side, getput.Get against simulated nodes -------------------------------------------

type C12Node struct {
	IDCpl  int // shared prefix length of the node's ID with the target (structured closeness)
	IDTail kit.Hex
	// Reply: genuine | forged-value | other-key | stale | no-v | no-k | no-sig | no-seq | no-token | int-token | silent | error | plain
	Reply string
	Seq   int64
	Val   int
	Lists []int
}

type C12cSc struct {
	Mutable bool
	SaltLen int
	Nodes   []C12Node
	Seeds   []int
	SeqArg  *int64
	// LoopLast: the lookup's run loop is scheduled last on every pass (see runLoopLast)
	LoopLast bool
}

var c12Replies = []string{"genuine", "genuine", "genuine", "forged-value", "other-key", "stale", "no-v", "no-k", "no-sig", "no-seq", "no-token", "int-token", "silent", "error", "plain", "plain"}

func genC12c(t *rapid.T) C12cSc {
	sc := C12cSc{Mutable: rapid.IntRange(0, 3).Draw(t, "mutable") > 0, SaltLen: rapid.SampledFrom([]int{0, 0, 5, 64}).Draw(t, "saltlen")}
	n := rapid.IntRange(1, 12).Draw(t, "nnodes")
	for i := 0; i < n; i++ {
		nd := C12Node{IDCpl: rapid.IntRange(0, 12).Draw(t, "n.cpl"), IDTail: genBytesN(t, 20, "n.tail"),
			Reply: rapid.SampledFrom(c12Replies).Draw(t, "n.reply"), Seq: rapid.Int64Range(1, 6).Draw(t, "n.seq"), Val: rapid.IntRange(0, 3).Draw(t, "n.val")}
		if kit.IsOpenFinding("C12:process-death") && nd.Reply == "no-seq" {
			nd.Reply = "plain"
		}
		nl := rapid.IntRange(0, 4).Draw(t, "n.nlists")
		for j := 0; j < nl; j++ {
			nd.Lists = append(nd.Lists, rapid.IntRange(0, n-1).Draw(t, "n.list"))
		}
		sc.Nodes = append(sc.Nodes, nd)
	}
	ns := rapid.IntRange(1, min(n, 4)).Draw(t, "nseeds")
	for i := 0; i < ns; i++ {
		sc.Seeds = append(sc.Seeds, rapid.IntRange(0, n-1).Draw(t, "seed"))
	}
	if rapid.IntRange(0, 4).Draw(t, "seqarg") == 0 {
		s := rapid.Int64Range(0, 6).Draw(t, "seqargval")
		sc.SeqArg = &s
	}
	sc.LoopLast = uniformInt(t, 4, "looplast") == 0
	return sc
}

func c12NodeAddr(i int) *net.UDPAddr {
	return &net.UDPAddr{IP: net.IP{23, 1, byte(i / 200), byte(1 + i%200)}, Port: 2000 + i}
}

func runC12c(sc C12cSc, c *kit.Case) *kit.Violation {
	key := b44Key(31)
	salt := c12Salt(sc.SaltLen)
	if !sc.Mutable {
		salt = nil
	}
	immV := "9:immutable"
	target := refmodel.Bep44ImmutableTarget([]byte(immV))
	if sc.Mutable {
		target = refmodel.Bep44MutableTarget(key.pub, salt)
	}
	var seeds []*net.UDPAddr
	for _, s := range sc.Seeds {
		seeds = append(seeds, c12NodeAddr(s))
	}
	sv := newSrv(SrvOpts{NodeID: [20]byte{0xc1, 3}, Starting: seeds})
	defer sv.Close()
	if sc.LoopLast {
		c.Label("run-loop-always-last")
		defer runLoopLast(sv)()
	}
	net1 := newSimNet(sv)
	type validReply struct {
		seq  int64
		encV string
	}
	valids := map[int]validReply{} // node index -> the verifying item its reply carries
	ids := make([][20]byte, len(sc.Nodes))
	for i, nd := range sc.Nodes {
		ids[i] = refmodel.WithPrefix(target, nd.IDCpl, arr20(nd.IDTail))
	}
	sawForged, sawGenuine := false, false
	for i, nd := range sc.Nodes {
		i, nd := i, nd
		addr := c12NodeAddr(i)
		net1.Add(&SimPeer{Addr: addr, ID: ids[i], Handle: func(q SimQuery) []SimReply {
			if q.Method != "get" {
				return nil
			}
			var contacts []SimContact
			for _, l := range nd.Lists {
				contacts = append(contacts, SimContact{ids[l], c12NodeAddr(l)})
			}
			tok := fmt.Sprintf("tok%d", i)
			r := stdReturn(ids[i], contacts, &tok)
			encV := c13Values[nd.Val]
			seq := nd.Seq
			k, sig := key.pub, []byte(nil)
			if !sc.Mutable {
				encV = immV
			}
			setItem := func(encV string, k []byte, sig []byte, seq *int64) {
				if encV != "" {
					v, _, _ := refmodel.Parse([]byte(encV))
					r = r.Set("v", v)
				}
				if k != nil {
					r = r.Set("k", bs(k))
				}
				if sig != nil {
					r = r.Set("sig", bs(sig))
				}
				if seq != nil {
					r = r.Set("seq", bint(*seq))
				}
			}
			switch nd.Reply {
			case "silent":
				return nil
			case "error":
				return []SimReply{{Data: mkError([]byte(q.T), 201, "nope")}}
			case "plain":
			case "genuine", "no-token", "int-token", "stale":
				if nd.Reply == "stale" {
					seq = 0
				}
				if sc.Mutable {
					sig = refmodel.Bep44Sign(key.priv, salt, seq, []byte(encV))
					setItem(encV, k, sig, &seq)
				} else {
					setItem(encV, nil, nil, nil)
				}
				if nd.Reply == "no-token" {
					r = r.Del("token")
				}
				if nd.Reply == "int-token" {
					r = r.Set("token", bint(7))
				}
			case "forged-value":
				if sc.Mutable {
					sig = refmodel.Bep44Sign(key.priv, salt, seq, []byte(encV))
					setItem("6:forged", k, sig, &seq)
				} else {
					setItem("6:forged", nil, nil, nil)
				}
			case "other-key":
				k2 := b44Key(32)
				sig = refmodel.Bep44Sign(k2.priv, salt, seq, []byte(encV))
				setItem(encV, k2.pub, sig, &seq)
			case "no-v":
				sig = refmodel.Bep44Sign(key.priv, salt, seq, []byte(encV))
				setItem("", k, sig, &seq)
			case "no-k":
				sig = refmodel.Bep44Sign(key.priv, salt, seq, []byte(encV))
				setItem(encV, nil, sig, &seq)
			case "no-sig":
				setItem(encV, k, nil, &seq)
			case "no-seq":
				sig = refmodel.Bep44Sign(key.priv, salt, seq, []byte(encV))
				setItem(encV, k, sig, nil)
			}
			return []SimReply{{Data: mkResponse([]byte(q.T), r)}}
		}})
		// which replies carry an item that verifies for the target (decided by the harness's own BEP 44)
		switch nd.Reply {
		case "genuine", "no-token", "stale":
			seq := nd.Seq
			if nd.Reply == "stale" {
				seq = 0
			}
			if sc.Mutable {
				valids[i] = validReply{seq, c13Values[nd.Val]}
			} else {
				valids[i] = validReply{0, immV}
			}
		case "no-k", "no-sig", "no-seq":
			if !sc.Mutable { // for an immutable target only `v` matters
				valids[i] = validReply{0, immV}
			}
		case "other-key":
			if !sc.Mutable {
				valids[i] = validReply{0, immV}
			}
		}
		if nd.Reply == "int-token" {
			// a non-string token makes the whole message undecodable for the library (token is a string
			// field): the reply is dropped and the query times out; it delivers nothing.
			delete(valids, i)
		}
	}
	type result struct {
		ret getput.GetResult
		err error
	}
	done := make(chan result, 1)
	go func() {
		ret, _, err := getput.Get(context.Background(), target, sv.S, sc.SeqArg, salt)
		done <- result{ret, err}
	}()
	var res result
	select {
	case res = <-done:
	case <-time.After(20 * time.Second):
		if ok, who := sv.C.AllBlocked(); !ok {
			c.Inconclusive = "getput.Get still running after 20 s with runnable goroutines: " + who
			return nil
		}
		return kit.Violatef("C12:get-traversal-hung", "getput.Get did not return although every module goroutine is blocked")
	}
	// which nodes were actually asked
	asked := map[int]bool{}
	for _, q := range net1.Queries() {
		for i := range sc.Nodes {
			if q.To.String() == c12NodeAddr(i).String() {
				asked[i] = true
			}
		}
	}
	var deliveredValid []validReply
	var askedIdx []int
	for i := range asked {
		askedIdx = append(askedIdx, i)
	}
	sort.Ints(askedIdx)
	for _, i := range askedIdx {
		if v, ok := valids[i]; ok {
			deliveredValid = append(deliveredValid, v)
			sawGenuine = true
		}
		switch sc.Nodes[i].Reply {
		case "forged-value", "other-key", "no-sig", "no-k", "no-seq":
			sawForged = true
		}
	}
	what := fmt.Sprintf("getput.Get(mutable=%v, salt %d bytes) over %d nodes (%d asked, %d verifying replies)", sc.Mutable, len(salt), len(sc.Nodes), len(asked), len(deliveredValid))
	if res.err == nil {
		encV := []byte(res.ret.V)
		if sc.Mutable {
			if !res.ret.Mutable || !refmodel.Bep44Verify(key.pub, salt, res.ret.Seq, encV, res.ret.Sig[:]) {
				return kit.Violatef("C12:client-returned-unverified", "%s returned (seq=%d, v=%q, mutable=%v), which does not verify under the requested key and salt", what, res.ret.Seq, encV, res.ret.Mutable)
			}
			var maxSeq int64 = -1 << 63
			for _, v := range deliveredValid {
				if v.seq > maxSeq {
					maxSeq = v.seq
				}
			}
			if len(deliveredValid) > 0 && res.ret.Seq != maxSeq {
				return kit.Violatef("C12:client-returned-stale", "%s returned seq=%d although a verifying reply with seq=%d was delivered", what, res.ret.Seq, maxSeq)
			}
		} else if refmodel.Bep44ImmutableTarget(encV) != target {
			return kit.Violatef("C12:client-returned-unverified", "%s returned %q, which does not hash to the requested target", what, encV)
		}
		if len(deliveredValid) == 0 {
			return kit.Violatef("C12:client-returned-unverified", "%s returned a value although no verifying reply was delivered: (seq=%d, v=%q)", what, res.ret.Seq, encV)
		}
	} else if len(deliveredValid) > 0 {
		return kit.Violatef("C12:client-lost-valid-value", "%s failed with %v although a verifying reply was delivered", what, res.err)
	}
	if sawForged && sawGenuine {
		c.NonTrivial()
	}
	c.Label(fmt.Sprintf("asked-%d", bucketCount(len(asked))))
	if res.err == nil {
		c.Label("get-returned-value")
	} else {
		c.Label("get-returned-error")
	}
	return nil
}

func init() {
	kit.Register("C12a",
		"rapid: histories of puts and gets against one node through the wire (genuine token), a bep44.Wrapper over the same store, and Server.Put: immutable items and mutable items under 3 keys, salt length in {0,1,63,64,65,200}, value shapes string/list/dict with encoded length drawn around the 1000-byte limit (996..1004) and from small to 6000 bytes, signature valid / valid for another salt, seq, value or key / bit-flipped / zero; gets for put targets and for unrelated targets; `race` steps in which a get and a valid update of one stored mutable item are injected back to back (the get must be answered with the old or the new version, and it must verify). Oracle (independent ed25519 + canonical buffer written from the BEP): accepted <=> valid; a rejected put is answered with an applicable code among 205/206/207 and the recording store saw no Put; a failed Server.Put writes nothing; whatever a get serves re-verifies under the requested target and equals the last accepted version; nothing is served under a target nobody put. Non-trivial: an item within +-2 bytes of a limit or a signature valid for a different field tuple.",
		[]string{"mutable puts use a sequence number increasing along the history so that seq/CAS rules (C13) never interfere", "immutable puts carry seq 0", "when several rejection reasons apply any applicable code is accepted"},
		genC12, runC12a)
	kit.Register("C12c",
		"rapid: getput.Get for a mutable (salt 0/5/64 bytes) or immutable target over 1..12 simulated nodes with structured IDs, whose get replies are genuine (seq 1..6), stale (seq 0), carry a forged value, another key, or omit v / k / sig / seq / token, have a non-string token, are errors, or never come; neighbour lists drive the traversal. Oracle: a returned value verifies for the requested target under the harness's own BEP 44 code, has the highest seq among the verifying replies delivered by the nodes actually asked, a value is returned only if such a reply was delivered and is returned whenever one was; the call returns (deadlock detector). Non-trivial: both a forged/incomplete and a verifying reply were delivered.",
		[]string{"replies are delivered synchronously with the query, so every asked node's reply precedes the stall"},
		genC12c, func(sc C12cSc, c *kit.Case) *kit.Violation {
			// see C16: a get traversal ended early by the stale stall report (F10) returns before replies that
			// are then still delivered; a genuine client-side defect shows on every execution
			return kit.Confirm(runC12c(sc, c), 3, []string{"C12:client-lost-valid-value", "C12:client-returned-stale"}, func() *kit.Violation { return runC12c(sc, &kit.Case{}) })
		})
}
