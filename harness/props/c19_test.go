package props

// C19 — Blocklisted addresses and passive mode are honoured on every path.

import (
	"context"
	"fmt"
	"net"
	"net/netip"
	"sort"
	"time"

	"github.com/anacrolix/torrent/iplist"
	"pgregory.net/rapid"

	dht "github.com/anacrolix/dht/v2"
	"github.com/anacrolix/dht/v2/bep44"
	"github.com/anacrolix/dht/v2/exts/getput"
	"github.com/anacrolix/dht/v2/int160"
	"github.com/anacrolix/dht/v2/krpc"
	"github.com/anacrolix/dht/v2/types"
	"github.com/anacrolix/generics"

	"verifharness/kit"
	"verifharness/refmodel"
	"verifharness/simnet"
)

type C19Range struct {
	First, Last kit.Hex // 4-byte or 16-byte
}

type C19List struct {
	Ranges []C19Range
	// Real: build an iplist.IPList (the library's own ranger) instead of the harness's ranger
	Real bool
}

type C19Op struct {
	Kind string // inq | inr | ine | ping | query | findnode | getpeers | get | put | bootstrap | announce | tget | tput | add | qp | tm | setlist | held
	Node int
	// inq
	Method string
	NoArgs bool // the query carries no `a` dictionary at all
	// RL: rate-limiting options of an API query: default | not-any | not-first
	RL string
	// setlist: index into Lists, -1 = nil
	List int
}

type C19Sc struct {
	Dual    bool
	Passive bool
	Hook    string // "" | allow (an OnQuery hook that lets every query through)
	Nodes   int
	Lists   []C19List
	Initial int // list installed at construction (-1 none)
	Ops     []C19Op
	// Security: BEP 42 is enforced; every simulated node has an ID that is valid for its address
	Security bool
}

func c19Addr(i int, dual bool) *net.UDPAddr {
	// even nodes IPv4 in two /24s, every fifth IPv6 when dual
	if dual && i%5 == 4 {
		ip := net.ParseIP("2001:db8:19::").To16()
		ip[15] = byte(i + 1)
		return &net.UDPAddr{IP: ip, Port: 1900 + i}
	}
	ip := net.IP{72, 19, byte(i % 2), byte(10 + i)}
	if dual {
		ip = ip.To16()
	}
	return &net.UDPAddr{IP: ip, Port: 1900 + i}
}

func genC19(t *rapid.T) C19Sc {
	sc := C19Sc{Dual: rapid.Bool().Draw(t, "dual"), Passive: uniformInt(t, 3, "passive") == 0, Nodes: 4 + uniformInt(t, 12, "nodes")}
	if uniformInt(t, 3, "hook") == 0 {
		sc.Hook = "allow"
	}
	nl := 1 + uniformInt(t, 3, "nlists")
	for i := 0; i < nl; i++ {
		var l C19List
		l.Real = rapid.Bool().Draw(t, "l.real")
		nr := 1 + uniformInt(t, 3, "l.nranges")
		for j := 0; j < nr; j++ {
			switch uniformInt(t, 4, "r.kind") {
			case 0: // one node's address
				a := c19Addr(uniformInt(t, sc.Nodes, "r.node"), sc.Dual)
				ip := refmodel.Unmap(a.IP)
				l.Ranges = append(l.Ranges, C19Range{kit.Hex(ip), kit.Hex(ip)})
			case 1: // a whole /24
				c := byte(uniformInt(t, 2, "r.c"))
				l.Ranges = append(l.Ranges, C19Range{kit.Hex(net.IP{72, 19, c, 0}), kit.Hex(net.IP{72, 19, c, 255})})
			case 2: // a span of hosts
				c := byte(uniformInt(t, 2, "r.c"))
				lo := 10 + uniformInt(t, sc.Nodes, "r.lo")
				hi := lo + uniformInt(t, 4, "r.span")
				l.Ranges = append(l.Ranges, C19Range{kit.Hex(net.IP{72, 19, c, byte(lo)}), kit.Hex(net.IP{72, 19, c, byte(hi)})})
			default: // the IPv6 /64
				f := net.ParseIP("2001:db8:19::").To16()
				la := net.ParseIP("2001:db8:19::ffff").To16()
				l.Ranges = append(l.Ranges, C19Range{kit.Hex(f), kit.Hex(la)})
			}
		}
		sc.Lists = append(sc.Lists, l)
	}
	sc.Initial = uniformInt(t, nl+1, "initial") - 1
	sc.Security = uniformInt(t, 3, "security") == 0
	n := 4 + uniformInt(t, deep(t, 22), "nops")
	for i := 0; i < n; i++ {
		op := C19Op{Node: uniformInt(t, sc.Nodes, "op.node")}
		op.Kind = pick(t, "op.kind", "inq", "inq", "inq", "inr", "ine", "ping", "query", "findnode", "getpeers", "get", "put", "bootstrap", "announce", "tget", "tput", "add", "qp", "setlist", "setlist", "held", "held", "filter")
		switch op.Kind {
		case "inq":
			op.Method = pick(t, "op.method", "ping", "find_node", "get_peers", "get", "announce_peer", "put", "nonsense")
			op.NoArgs = uniformInt(t, 4, "op.noargs") == 0
		case "setlist", "held":
			op.List = uniformInt(t, nl+1, "op.list") - 1
		case "query", "findnode", "getpeers", "get":
			op.RL = pick(t, "op.rl", "default", "default", "not-any", "not-first")
		}
		sc.Ops = append(sc.Ops, op)
	}
	if uniformInt(t, 5, "tm") == 0 {
		sc.Ops = append(sc.Ops, C19Op{Kind: "tm"})
	}
	return sc
}

// rangeList is the harness-side ranger and at the same time the oracle's notion of "covered".
type rangeList struct{ ranges []C19Range }

func ipInRange(ip net.IP, r C19Range) bool {
	ip = refmodel.Unmap(ip)
	f, l := refmodel.Unmap(net.IP(r.First)), refmodel.Unmap(net.IP(r.Last))
	if len(ip) != len(f) || len(ip) != len(l) {
		return false
	}
	return string(ip) >= string(f) && string(ip) <= string(l)
}

func (b *rangeList) covers(ip net.IP) bool {
	if b == nil {
		return false
	}
	for _, r := range b.ranges {
		if ipInRange(ip, r) {
			return true
		}
	}
	return false
}

func (b *rangeList) Lookup(ip net.IP) (iplist.Range, bool) {
	for _, r := range b.ranges {
		if ipInRange(ip, r) {
			return iplist.Range{First: net.IP(r.First), Last: net.IP(r.Last), Description: "verif"}, true
		}
	}
	return iplist.Range{}, false
}
func (b *rangeList) NumRanges() int { return len(b.ranges) }

func (l C19List) build() (iplist.Ranger, *rangeList) {
	rl := &rangeList{ranges: l.Ranges}
	if !l.Real {
		return rl, rl
	}
	// the library's list wants sorted, non-overlapping ranges of one representation: merge first
	type span struct{ f, l net.IP }
	var v4, v6 []span
	for _, r := range l.Ranges {
		f, la := refmodel.Unmap(net.IP(r.First)), refmodel.Unmap(net.IP(r.Last))
		if len(f) == 4 {
			v4 = append(v4, span{f, la})
		} else {
			v6 = append(v6, span{f, la})
		}
	}
	merge := func(s []span) []span {
		sort.Slice(s, func(i, j int) bool { return string(s[i].f) < string(s[j].f) })
		var out []span
		for _, x := range s {
			if len(out) > 0 && string(x.f) <= string(out[len(out)-1].l) {
				if string(x.l) > string(out[len(out)-1].l) {
					out[len(out)-1].l = x.l
				}
				continue
			}
			out = append(out, x)
		}
		return out
	}
	if len(v6) > 0 {
		// real-world lists of this type are IPv4-only (4-byte bounds, sorted); mixed lists use the harness ranger
		return rl, rl
	}
	var rs []iplist.Range
	for _, x := range merge(v4) {
		rs = append(rs, iplist.Range{First: x.f, Last: x.l, Description: "verif4"})
	}
	// the merged harness view must describe the same set
	return iplist.New(rs), rl
}

func runC19(sc C19Sc, c *kit.Case) *kit.Violation {
	addrs := make([]*net.UDPAddr, sc.Nodes)
	ids := make([][20]byte, sc.Nodes)
	for i := range addrs {
		addrs[i] = c19Addr(i, sc.Dual)
		ids[i] = [20]byte{0x19, byte(i), byte(i * 7)}
		if sc.Security {
			ids[i] = refmodel.Bep42Secure(ids[i], addrs[i].IP)
		}
	}
	if sc.Security {
		c.Label("security-enforced")
	}
	var cur *rangeList
	opts := SrvOpts{NodeID: [20]byte{0xc1, 0x19}, Passive: sc.Passive, Hook: sc.Hook, PeerStore: true, Starting: []*net.UDPAddr{addrs[0], addrs[1]}, Security: sc.Security}
	if sc.Initial >= 0 {
		r, rl := sc.Lists[sc.Initial].build()
		opts.Blocklist = r
		cur = rl
	}
	sv := newSrv(opts)
	defer sv.Close()
	net1 := newSimNet(sv)
	net1.Blocked = func(ip net.IP) bool { return cur.covers(ip) }
	// a held query: its reply is kept back until released
	var heldReply func()
	for i := range addrs {
		i := i
		net1.Add(&SimPeer{Addr: addrs[i], ID: ids[i], Handle: func(q SimQuery) []SimReply {
			t := []byte(q.T)
			var cs []SimContact
			if q.Method == "find_node" || q.Method == "get_peers" || q.Method == "get" {
				for j := 1; j <= 8 && j < sc.Nodes; j++ { // names everybody, blocked or not
					k := (i + j) % sc.Nodes
					cs = append(cs, SimContact{ids[k], addrs[k]})
				}
			}
			tok := fmt.Sprintf("t19-%d", i)
			data := mkResponse(t, stdReturn(ids[i], cs, &tok))
			if m, ok := q.Arg("target"); ok && m.S == string(heldMarker[:]) {
				heldReply = func() { sv.C.Inject(addrs[i], data) }
				return nil
			}
			return []SimReply{{Data: data}}
		}})
	}
	sv.C.DelayHook = func(gid int64, matched bool) time.Duration {
		if matched {
			return time.Hour
		}
		return 0
	}
	blockedPaths := map[string]bool{}
	tokens := map[int]string{}
	lastInqT := ""
	mark := 0
	tseq := 0
	key := b44Key(19)
	var k32 [32]byte
	copy(k32[:], key.pub)
	// judge every datagram written since `mark` against the list in force
	judge := func(what string, inForce *rangeList, reactingToQuery bool) *kit.Violation {
		for _, o := range outsFrom(sv.C, mark) {
			if o.To != nil && inForce.covers(o.To.IP) {
				return kit.Violatef("C19:datagram-to-blocked-address", "%s: a datagram was sent to %v, which the blocklist in force covers: %s", what, o.To, o.Describe())
			}
			if o.OK && o.Y == "q" {
				ro, has := o.V.Get("ro")
				isRO := has && ro.Kind == 'i' && ro.I == 1
				if sc.Passive && !isRO {
					return kit.Violatef("C19:passive-query-not-read-only", "%s: the passive node sent a query without ro=1: %s", what, o.Describe())
				}
				if !sc.Passive && isRO {
					return kit.Violatef("C19:non-passive-query-read-only", "%s: the non-passive node marked a query read-only: %s", what, o.Describe())
				}
			}
			if o.OK && (o.Y == "r" || o.Y == "e") && sc.Passive {
				return kit.Violatef("C19:passive-node-replied", "%s: the passive node sent %s", what, o.Describe())
			}
		}
		mark = sv.C.NumOut()
		return nil
	}
	await := func(done chan struct{}, what string) (bool, *kit.Violation) {
		select {
		case <-done:
			return true, nil
		case <-time.After(30 * time.Second):
		}
		if ok, who := sv.C.AllBlocked(); !ok {
			c.Inconclusive = what + ": still running after 30 s with runnable goroutines: " + who
			return false, nil
		}
		return false, kit.Violatef("C19:operation-hung", "%s: the call did not return although every module goroutine is blocked", what)
	}
	for oi, op := range sc.Ops {
		what := fmt.Sprintf("op %d %s (node %d %v)", oi, op.Kind, op.Node, addrs[op.Node])
		node := addrs[op.Node]
		nodeBlocked := cur.covers(node.IP)
		inForce := cur
		pre := sv.S.VerifTable()
		preStats := sv.S.Stats()
		prePuts, preAdds, preAnn := sv.Store.Puts(), len(sv.Peers.Adds()), len(sv.Announces())
		fromBlockedSource := false
		done := make(chan struct{})
		async := func(f func()) {
			simnet.Go(func() { defer close(done); f() })
		}
		sync := true
		rl := dht.QueryRateLimiting{NotAny: op.RL == "not-any", NotFirst: op.RL == "not-first"}
		switch op.Kind {
		case "inq":
			tseq++
			tok := "x"
			if tk, ok := tokens[op.Node]; ok {
				tok = tk // a token issued to this IP earlier, possibly before it was blocked
			}
			kv := []BKV{{K: "target", V: bs(ids[0][:])}, {K: "info_hash", V: bs(ids[1][:])}, {K: "port", V: bint(1)}, {K: "token", V: bstr(tok)}, {K: "v", V: bstr("v")}, {K: "seq", V: bint(1)}}
			lastInqT = fmt.Sprintf("q%d", tseq)
			args := mkArgs(ids[op.Node], kv...)
			if op.NoArgs {
				args = nil
				what += " (no arguments)"
			}
			sv.C.Inject(node, mkQuery([]byte(lastInqT), op.Method, args))
			fromBlockedSource = nodeBlocked
			what += " " + op.Method
		case "inr":
			tseq++
			sv.C.Inject(node, mkResponse([]byte(fmt.Sprintf("r%d", tseq)), stdReturn(ids[op.Node], nil, nil)))
			fromBlockedSource = nodeBlocked
		case "ine":
			tseq++
			sv.C.Inject(node, mkError([]byte(fmt.Sprintf("e%d", tseq)), 201, "x"))
			fromBlockedSource = nodeBlocked
		case "ping":
			sync = false
			async(func() { sv.S.Ping(node) })
		case "query":
			sync = false
			async(func() {
				sv.S.Query(context.Background(), dht.NewAddr(node), "ping", dht.QueryInput{NumTries: 2, RateLimiting: rl})
			})
		case "findnode":
			sync = false
			async(func() { sv.S.FindNode(dht.NewAddr(node), int160.FromByteArray(ids[0]), rl) })
		case "getpeers":
			sync = false
			async(func() {
				sv.S.GetPeers(context.Background(), dht.NewAddr(node), int160.FromByteArray(ids[0]), false, rl)
			})
		case "get":
			sync = false
			async(func() {
				sv.S.Get(context.Background(), dht.NewAddr(node), bep44.Target(ids[0]), nil, rl)
			})
		case "put":
			sync = false
			async(func() {
				p := bep44.Put{V: "c19", K: &k32, Seq: int64(oi + 1)}
				p.Sign(key.priv)
				sv.S.Put(context.Background(), dht.NewAddr(node), p, "tok", dht.QueryRateLimiting{})
			})
		case "bootstrap":
			sync = false
			async(func() { sv.S.Bootstrap() })
		case "announce":
			sync = false
			async(func() {
				a, err := sv.S.Announce([20]byte{0xa9, byte(oi)}, 1919, false)
				if err != nil {
					return
				}
				for range a.Peers {
				}
				<-a.Finished()
			})
		case "tget":
			sync = false
			async(func() { getput.Get(context.Background(), bep44.Target{0x9f, byte(oi)}, sv.S, nil, nil) })
		case "tput":
			sync = false
			async(func() {
				getput.Put(context.Background(), krpc.ID(bep44.MakeMutableTarget(k32, nil)), sv.S, nil, func(seq int64) bep44.Put {
					p := bep44.Put{V: "c19t", K: &k32, Seq: seq + int64(oi) + 100}
					p.Sign(key.priv)
					return p
				})
			})
		case "add":
			sv.S.AddNode(krpc.NodeInfo{ID: ids[op.Node], Addr: krpc.NodeAddr{IP: node.IP, Port: node.Port}})
		case "filter":
			// the node filter the server hands to every lookup it runs (announce, bootstrap, get/put, refresh)
			ap, _ := netip.AddrFromSlice(node.IP)
			for _, withID := range []bool{true, false} {
				ami := types.AddrMaybeId{Addr: krpc.NodeAddrPort{AddrPort: netip.AddrPortFrom(ap, uint16(node.Port))}}
				if withID {
					ami.Id = generics.Some(int160.FromByteArray(ids[op.Node]))
				}
				if sv.S.TraversalNodeFilter(ami) && nodeBlocked {
					return kit.Violatef("C19:lookup-filter-admits-blocked-address", "%s: the server's lookup node filter accepts %v (with ID: %v), which the blocklist in force covers", what, node, withID)
				}
			}
		case "qp":
			sync = false
			async(func() { sv.S.VerifQuestionablePing(context.Background(), node, ids[op.Node]) })
		case "tm":
			simnet.Go(sv.S.TableMaintainer)
		case "setlist":
			if op.List < 0 {
				sv.S.SetIPBlockList(nil)
				cur = nil
			} else {
				r, rl := sc.Lists[op.List].build()
				sv.S.SetIPBlockList(r)
				cur = rl
			}
			inForce = cur
			what += fmt.Sprintf(" #%d", op.List)
		case "held":
			// a query to `node` is outstanding; the blocklist changes; then the node's reply arrives
			if nodeBlocked || sc.Passive && false {
				continue
			}
			heldReply = nil
			qdone := make(chan dht.QueryResult, 1)
			ctx, cancel := context.WithCancel(context.Background())
			sv.C.DelayHook = func(int64, bool) time.Duration { return time.Hour }
			simnet.Go(func() {
				qdone <- sv.S.Query(ctx, dht.NewAddr(node), "find_node", dht.QueryInput{MsgArgs: krpc.MsgArgs{Target: heldMarker}})
			})
			if !sv.barrier(c) {
				cancel()
				return nil
			}
			if v := judge(what+" (query sent)", cur, false); v != nil {
				cancel()
				return v
			}
			if op.List < 0 {
				sv.S.SetIPBlockList(nil)
				cur = nil
			} else {
				r, rl := sc.Lists[op.List].build()
				sv.S.SetIPBlockList(r)
				cur = rl
			}
			inForce = cur
			nowBlocked := cur.covers(node.IP)
			preT := sv.S.VerifTable()
			if heldReply != nil {
				heldReply()
			}
			if !sv.barrier(c) {
				cancel()
				return nil
			}
			var res *dht.QueryResult
			select {
			case r := <-qdone:
				res = &r
			default:
			}
			sv.C.DelayHook = func(gid int64, matched bool) time.Duration {
				if matched {
					return time.Hour
				}
				return 0
			}
			what += fmt.Sprintf(" list #%d (destination now blocked=%v)", op.List, nowBlocked)
			if nowBlocked {
				blockedPaths["reply-to-outstanding-query"] = true
				if res != nil && res.Err == nil {
					cancel()
					return kit.Violatef("C19:blocked-reply-completed-query", "%s: the reply from the now blocked address completed the outstanding query", what)
				}
				if v := tableUnchanged(preT, sv.S.VerifTable(), what); v != nil {
					cancel()
					return v
				}
			} else if res == nil && heldReply != nil {
				// negative evidence: grace
				select {
				case r := <-qdone:
					res = &r
				case <-time.After(2 * time.Second):
					cancel()
					return kit.Violatef("C19:unblocked-reply-ignored", "%s: the reply from a non-blocked address did not complete the query", what)
				}
			}
			cancel()
			if res == nil {
				select {
				case <-qdone:
				case <-time.After(10 * time.Second):
					c.Inconclusive = "held query did not return after cancellation"
					return nil
				}
			}
		}
		if !sync {
			if ok, v := await(done, what); !ok {
				return v
			}
		}
		if !sv.barrier(c) {
			return nil
		}
		if op.Kind == "tm" {
			// the pass is over when everything is quiet; Close ends the maintainer below (deferred)
		}
		if op.Kind == "inq" && (op.Method == "get" || op.Method == "get_peers") {
			if o, ok := replyTo(outsFrom(sv.C, mark), node, []byte(lastInqT)); ok {
				if r, ok := o.R(); ok {
					if tk, ok := r.Get("token"); ok && tk.Kind == 's' {
						tokens[op.Node] = tk.S
					}
				}
			}
		}
		if v := judge(what, inForce, op.Kind == "inq"); v != nil {
			return v
		}
		if fromBlockedSource {
			blockedPaths["inbound-"+op.Kind] = true
			if n := sv.C.NumOut(); n != mark {
				return kit.Violatef("C19:reply-to-blocked-source", "%s: a datagram from a blocked source caused a write", what)
			}
			if v := tableUnchanged(pre, sv.S.VerifTable(), what); v != nil {
				return v
			}
			if sv.Store.Puts() != prePuts || len(sv.Peers.Adds()) != preAdds || len(sv.Announces()) != preAnn {
				return kit.Violatef("C19:blocked-source-stored-data", "%s: a datagram from a blocked source stored data or fired the announce callback", what)
			}
			if st := sv.S.Stats(); st.OutstandingTransactions != preStats.OutstandingTransactions {
				return kit.Violatef("C19:blocked-source-touched-transactions", "%s: a datagram from a blocked source changed the pending transactions", what)
			}
		} else if nodeBlocked && (op.Kind == "ping" || op.Kind == "query" || op.Kind == "findnode" || op.Kind == "getpeers" || op.Kind == "get" || op.Kind == "put" || op.Kind == "qp") {
			blockedPaths["api-"+op.Kind] = true
		}
		if op.Kind == "inq" && sc.Passive {
			c.Label("passive-query-" + op.Method)
		}
		c.Label("op-" + op.Kind)
		if op.Kind == "tm" {
			break
		}
	}
	// traversals over a network that names blocked nodes are a path of their own
	if cur != nil {
		for _, a := range addrs {
			if cur.covers(a.IP) {
				blockedPaths["named-in-replies"] = true
			}
		}
	}
	if len(blockedPaths) >= 2 {
		c.NonTrivial()
	}
	return nil
}

var heldMarker = [20]byte{'h', 'e', 'l', 'd', '-', 'q', 'u', 'e', 'r', 'y', '-', 'm', 'a', 'r', 'k', 'e', 'r', '!', '!', '!'}

func tableUnchanged(pre, post dht.VerifTableSnapshot, what string) *kit.Violation {
	a, b := indexEntries(pre), indexEntries(post)
	for k, e := range b {
		o, had := a[k]
		if !had {
			return kit.Violatef("C19:blocked-source-entered-table", "%s: routing-table entry %x@%s appeared", what, k.id[:4], k.addr)
		}
		if !o.LastGotQuery.Equal(e.LastGotQuery) || !o.LastGotResponse.Equal(e.LastGotResponse) {
			return kit.Violatef("C19:blocked-source-touched-table", "%s: the liveness evidence of %x@%s changed", what, k.id[:4], k.addr)
		}
	}
	for k := range a {
		if _, has := b[k]; !has {
			return kit.Violatef("C19:blocked-source-touched-table", "%s: routing-table entry %x@%s vanished", what, k.id[:4], k.addr)
		}
	}
	return nil
}

func init() {
	kit.Register("C19a",
		"rapid: histories of 4..26 operations on a node (passive in 1/3 of cases, udp4 or dual-stack) over 4..16 simulated nodes in two IPv4 /24s and one IPv6 /64, every one of which names the others in its find_node / get_peers / get replies; 1..3 blocklists of single addresses, host spans, whole /24s and the IPv6 /64, as a harness-side ranger or as the library's own iplist.New list, installed at construction or by SetIPBlockList at drawn points, including while a query to the newly blocked address is outstanding (its reply is delivered afterwards). Operations: inbound queries of every method, responses and errors from blocked and unblocked nodes; Ping / Query (2 tries) / FindNode / GetPeers / Get / Put to them; Bootstrap, Announce, getput.Get, getput.Put; AddNode followed by questionable pings; one TableMaintainer pass. Oracle: no datagram's destination is covered by the list in force when it was written (lists change only at quiescent points); a datagram from a covered source causes no write, no table change, no stored data or callback and completes no query; a passive node sends no response or error, and every query carries ro=1 exactly when the node is passive. Non-trivial: blocked addresses were involved on >= 2 different paths. In a third of the cases BEP 42 is enforced (all simulated nodes carry IDs valid for their addresses), and the node filter the server hands to every lookup (TraversalNodeFilter) is asked directly about each node, with and without an ID: it must refuse a covered address.",
		[]string{"AddNode of a blocked address may create a table entry: only datagrams and the effects of datagrams are judged", "a reply already queued to the socket is judged against the list in force when the node reads it"},
		genC19, runC19)
}
