package props

// C07b — long histories: queries held outstanding while very many later queries come and go.
//
// "Queries outstanding at the same time never share a transaction ID" and "a query returns only the
// reply that matches it" quantify over every history, including ones in which a query outlives
// thousands of later ones (transaction IDs are issued from a process-wide counter whose encoded
// length grows). C07a's histories are at most ten queries long; this sub-property holds 1..3 queries
// outstanding, runs a burst of N answered queries (N up to 70000, past every 1- and 2-byte counter
// boundary) and then completes the held ones.

import (
	"context"
	"fmt"
	"net"
	"sync"
	"time"

	"pgregory.net/rapid"

	dht "github.com/anacrolix/dht/v2"

	"verifharness/kit"
	"verifharness/refmodel"
	"verifharness/simnet"
)

type C07bSc struct {
	Dual bool
	Held int
	// Burst sizes, run one after the other; after each the held queries are checked to be still waiting
	Bursts []int
	// SameDest: the burst goes to the held queries' destination (else to another port of the same IP)
	SameDest bool
}

func genC07b(t *rapid.T) C07bSc {
	sc := C07bSc{Dual: rapid.Bool().Draw(t, "dual"), Held: 1 + uniformInt(t, 3, "held"), SameDest: rapid.Bool().Draw(t, "samedest")}
	nb := 1 + uniformInt(t, 2, "nbursts")
	for i := 0; i < nb; i++ {
		sc.Bursts = append(sc.Bursts, []int{40, 300, 300, 3000, 17000, 70000}[uniformInt(t, 6, "burst")])
	}
	return sc
}

func runC07b(sc C07bSc, c *kit.Case) *kit.Violation {
	sv := newSrv(SrvOpts{NodeID: [20]byte{0xc7, 0x0b}})
	defer sv.Close()
	ipX := net.IP{9, 8, 7, 1}
	if sc.Dual {
		ipX = ipX.To16()
	}
	X := &net.UDPAddr{IP: ipX, Port: 6881}
	Y := X
	if !sc.SameDest {
		Y = &net.UDPAddr{IP: ipX, Port: 6882}
	}
	var mu sync.Mutex
	heldT := map[string]int{} // transaction ID -> index of the held query
	holding := true           // queries written now are held ones
	var viol *kit.Violation
	arrived := make(chan string, 1)
	burstID := [20]byte{0xbb}
	sv.C.OnWrite = func(o simnet.Out) (bool, error) {
		v, _, err := refmodel.Parse(o.Data)
		if err != nil {
			return false, nil
		}
		if y, _ := v.Get("y"); y.S != "q" {
			return false, nil
		}
		tv, _ := v.Get("t")
		mu.Lock()
		h := holding
		if !h {
			if hi, clash := heldT[tv.S]; clash && viol == nil {
				viol = kit.Violatef("C07:transaction-id-reused", "a query to %v was written with transaction ID %q while held query #%d (to %v) is still outstanding with the same transaction ID", o.To, tv.S, hi, X)
			}
		}
		mu.Unlock()
		if h {
			arrived <- tv.S
			return true, nil // "will be answered": waits its virtual hour
		}
		sv.C.Inject(o.To, mkResponse([]byte(tv.S), stdReturn(burstID, nil, nil)))
		return true, nil
	}
	type hq struct {
		t      string
		cancel context.CancelFunc
		done   chan dht.QueryResult
	}
	var held []*hq
	defer func() {
		for _, q := range held {
			q.cancel()
		}
	}()
	for i := 0; i < sc.Held; i++ {
		ctx, cancel := context.WithCancel(context.Background())
		q := &hq{cancel: cancel, done: make(chan dht.QueryResult, 1)}
		held = append(held, q)
		simnet.Go(func() { q.done <- sv.S.Query(ctx, dht.NewAddr(X), "ping", dht.QueryInput{}) })
		select {
		case q.t = <-arrived:
		case <-time.After(10 * time.Second):
			c.Inconclusive = "held query's datagram did not reach the socket within 10 s"
			return nil
		}
		mu.Lock()
		if j, dup := heldT[q.t]; dup {
			mu.Unlock()
			return kit.Violatef("C07:transaction-id-reused", "held queries #%d and #%d are outstanding at the same time with the same transaction ID %q", j, i, q.t)
		}
		heldT[q.t] = i
		mu.Unlock()
	}
	mu.Lock()
	holding = false
	mu.Unlock()
	total := 0
	for bi, n := range sc.Bursts {
		for k := 0; k < n; k++ {
			res := sv.S.Query(context.Background(), dht.NewAddr(Y), "ping", dht.QueryInput{})
			mu.Lock()
			v := viol
			mu.Unlock()
			if v != nil {
				return v
			}
			if res.Err != nil || replyMarker(res) != string(burstID[:]) {
				if ok, who := sv.C.AllBlocked(); !ok && res.Err != nil {
					c.Inconclusive = fmt.Sprintf("burst query %d failed (%v) with runnable goroutines: %s", total+k, res.Err, who)
					return nil
				}
				return kit.Violatef("C07:query-not-completed", "burst %d query %d to %v, answered at once from that address with its own transaction ID, returned err=%v marker=%q", bi, k, Y, res.Err, replyMarker(res))
			}
		}
		total += n
		// the held queries are still waiting: nothing in the burst was theirs
		for i, q := range held {
			select {
			case r := <-q.done:
				return kit.Violatef("C07:query-completed-by-wrong-datagram", "held query #%d (t=%q to %v) returned (err=%v marker=%q) after a burst of %d answered queries to %v, none of whose replies carried its transaction ID", i, q.t, X, r.Err, replyMarker(r), total, Y)
			default:
			}
		}
		if !sv.barrier(c) {
			return nil
		}
		st, sv1, ok := sv.stats(c, "C07", fmt.Sprintf("after burst %d", bi))
		if !ok {
			return sv1
		}
		if st.OutstandingTransactions != len(held) {
			return kit.Violatef("C07:pending-transactions-disagree", "after %d answered queries with %d held: the node reports %d outstanding transactions", total, len(held), st.OutstandingTransactions)
		}
	}
	c.Label(fmt.Sprintf("burst-total-%d", bucketCount(total)))
	// now each held query gets its own reply, marked
	for i, q := range held {
		var marker [20]byte
		copy(marker[:], fmt.Sprintf("held-marker-%d", i))
		sv.C.Inject(X, mkResponse([]byte(q.t), stdReturn(marker, nil, nil)))
		select {
		case r := <-q.done:
			if r.Err != nil || replyMarker(r) != string(marker[:]) {
				return kit.Violatef("C07:query-returned-other-reply", "held query #%d (t=%q to %v) should return the datagram marked %q after %d later queries, returned err=%v marker=%q", i, q.t, X, marker[:], total, r.Err, replyMarker(r))
			}
		case <-time.After(5 * time.Second):
			if ok, who := sv.C.AllBlocked(); !ok {
				c.Inconclusive = "held query did not return yet and goroutines are runnable: " + who
				return nil
			}
			return kit.Violatef("C07:query-not-completed", "held query #%d (t=%q to %v) did not return although its reply was delivered (after %d later queries)", i, q.t, X, total)
		}
	}
	if total >= 300 {
		c.NonTrivial()
	}
	return nil
}

func init() {
	kit.Register("C07b",
		"rapid: long histories: 1..3 queries to one destination are held outstanding (one-hour virtual resend delay) while 1..2 bursts of 40 / 300 / 3000 / 17000 / 70000 further queries, to the same endpoint or another port of its IP, are each answered at once from the queried address with their own transaction ID; then each held query receives its own marked reply. Oracle: no query is written with the transaction ID of a held query; every burst query returns its reply; no held query returns during the bursts; the node's outstanding-transaction count equals the number held after each burst; each held query returns exactly its marked reply at the end. Non-trivial: at least 300 later queries while held.",
		[]string{"transaction IDs come from a process-wide counter, so where in its range a case runs depends on the cases before it in the same process; a 70000-query burst crosses every boundary below 2^16 whatever the start"},
		genC07b, runC07b)
}
