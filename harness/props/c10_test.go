package props

// C10 — Writes need a fresh token issued to the same IP.

import (
	"fmt"
	"net"
	"sync"
	"time"

	"pgregory.net/rapid"

	"verifharness/kit"
)

type C10Op struct {
	Kind    string // issue | use | advance
	IP      int    // index into the scenario's IP pool
	Port    int
	Method  string // issue: get | get_peers ; use: announce_peer | put
	Advance int64  // nanoseconds
	Ref     int    // which issued token (mod number issued)
	Mut     string // exact | bitflip | bytechange | truncate | extend | empty | absent | other-server
	MutPos  int
	MutVal  int
	Implied bool
	// Shape: "" = a well-formed write; otherwise a write that is defective in another way as well
	// (put: noseq | nov | oversize | badsig ; announce_peer: noih | noport). A bad token must still mean
	// silence; with a good token such a write is not C10's business.
	Shape string
}

type C10Sc struct {
	Dual      bool
	PeerStore bool
	StartOff  int64 // offset of the start instant within a 5-minute interval
	IPs       []kit.Hex
	Ops       []C10Op
}

const min5 = int64(5 * time.Minute)

var c10Advances = []int64{0, 1, int64(time.Second), min5 / 2, min5 - 1, min5, min5 + 1, 2*min5 - 1, 2 * min5, 2*min5 + 1, 3*min5 - 1, 3 * min5, 3*min5 + 1, int64(time.Hour),
	// long jumps: whole numbers of rotation intervals that are powers of two (and a little more), so that a
	// counter of any narrower width than the clock's comes round to the same value
	256 * min5, 256*min5 + min5/2, 65536 * min5, 65536*min5 + 9*int64(time.Minute), 2 * 65536 * min5, (1 << 24) * min5}

func genC10(t *rapid.T) C10Sc {
	sc := C10Sc{Dual: rapid.Bool().Draw(t, "dual"), PeerStore: rapid.Bool().Draw(t, "peerstore")}
	sc.StartOff = rapid.SampledFrom([]int64{0, 1, min5 / 2, min5 - 1}).Draw(t, "startoff")
	nip := rapid.IntRange(1, 3).Draw(t, "nips")
	seen := map[string]bool{}
	for len(sc.IPs) < nip {
		s := genSrc(t, sc.Dual, "ip")
		if len(sc.IPs) > 0 && rapid.Bool().Draw(t, "ip.related") {
			// an address whose bytes are related to an earlier one's: a token must still be bound to the whole IP
			s.IP = relatedIP(t, net.IP(sc.IPs[uniformInt(t, len(sc.IPs), "ip.relto")]), sc.Dual)
		}
		if seen[string(s.IP)] {
			continue
		}
		seen[string(s.IP)] = true
		sc.IPs = append(sc.IPs, s.IP)
	}
	n := rapid.IntRange(2, deep(t, 25)).Draw(t, "nops")
	issued := 0
	for i := 0; i < n; i++ {
		op := C10Op{IP: rapid.IntRange(0, nip-1).Draw(t, "op.ip"), Port: genPort(t, "op.port")}
		roll := rapid.IntRange(0, 9).Draw(t, "op.kind")
		switch {
		case issued == 0 || roll < 3:
			op.Kind = "issue"
			op.Method = "get"
			if sc.PeerStore && rapid.Bool().Draw(t, "op.getpeers") {
				op.Method = "get_peers"
			}
			issued++
		case roll < 5:
			op.Kind = "advance"
			// half of the advances are short (under one rotation interval), so that chains of uses a few
			// minutes apart reach well past the 15-minute bound; the rest is drawn from the whole list
			if rapid.Bool().Draw(t, "op.adv.short") {
				op.Advance = c10Advances[uniformInt(t, 6, "op.adv")]
			} else {
				op.Advance = c10Advances[uniformInt(t, len(c10Advances), "op.adv")]
			}
		default:
			op.Kind = "use"
			op.Method = rapid.SampledFrom([]string{"announce_peer", "put"}).Draw(t, "op.method")
			op.Ref = rapid.IntRange(0, 63).Draw(t, "op.ref")
			// bias: the most recent token for this IP is what a real client would use
			op.Mut = rapid.SampledFrom([]string{"exact", "exact", "exact", "exact", "bitflip", "bytechange", "truncate", "extend", "empty", "absent", "other-server"}).Draw(t, "op.mut")
			op.MutPos = rapid.IntRange(0, 63).Draw(t, "op.mutpos")
			op.MutVal = rapid.IntRange(1, 255).Draw(t, "op.mutval")
			op.Implied = rapid.Bool().Draw(t, "op.implied")
			if op.Method == "put" {
				op.Shape = pick(t, "op.shape", "", "", "", "", "noseq", "nov", "oversize", "badsig")
			} else {
				op.Shape = pick(t, "op.shape", "", "", "", "", "noih", "noport")
			}
		}
		sc.Ops = append(sc.Ops, op)
	}
	if uniformInt(t, 5, "chain") == 0 {
		// a client that keeps using one token every few minutes, well past its lifetime
		ip, port := uniformInt(t, nip, "chain.ip"), genPort(t, "chain.port")
		sc.Ops = append(sc.Ops, C10Op{Kind: "issue", IP: ip, Port: port, Method: "get"})
		ref := issued
		issued++
		for i, n := 0, 4+uniformInt(t, 6, "chain.len"); i < n; i++ {
			sc.Ops = append(sc.Ops, C10Op{Kind: "advance", Advance: pick(t, "chain.adv", min5/2, min5-1, min5-1, int64(time.Minute))},
				C10Op{Kind: "use", IP: ip, Port: port, Method: pick(t, "chain.method", "announce_peer", "put"), Ref: ref, Mut: "exact"})
		}
	}
	return sc
}

// relatedIP derives another source IP from ip: one bit or byte away, or (on a dual-stack socket) the
// same four bytes placed elsewhere in an address of the other family.
func relatedIP(t *rapid.T, ip net.IP, dual bool) kit.Hex {
	out := append(net.IP(nil), ip...)
	v4 := ip.To4()
	kinds := []string{"lastbit", "firstbit", "byte"}
	if dual && v4 != nil {
		kinds = append(kinds, "v4-left", "v4-left", "v4-compat", "6to4", "nat64")
	}
	if dual && v4 == nil {
		kinds = append(kinds, "v6-first4", "v6-last4")
	}
	switch pick(t, "ip.relkind", kinds...) {
	case "lastbit":
		out[len(out)-1] ^= 1
	case "firstbit":
		out[len(out)-4] ^= 0x80 // (of the IPv4 part when v4-mapped)
		if v4 == nil {
			out[len(out)-4] ^= 0x80
			out[0] ^= 0x01
		}
	case "byte":
		out[len(out)-1-uniformInt(t, 3, "ip.relbyte")] += byte(1 + uniformInt(t, 255, "ip.reldelta"))
	case "v4-left": // aabb:ccdd::
		out = make(net.IP, 16)
		copy(out, v4)
	case "v4-compat": // ::a.b.c.d
		out = make(net.IP, 16)
		copy(out[12:], v4)
	case "6to4": // 2002:aabb:ccdd::
		out = make(net.IP, 16)
		out[0], out[1] = 0x20, 0x02
		copy(out[2:], v4)
	case "nat64": // 64:ff9b::a.b.c.d
		out = make(net.IP, 16)
		out[1], out[2], out[3] = 0x64, 0xff, 0x9b
		copy(out[12:], v4)
	case "v6-first4":
		out = net.IP(append([]byte(nil), ip[:4]...)).To16()
	case "v6-last4":
		out = net.IP(append([]byte(nil), ip[12:]...)).To16()
	}
	return kit.Hex(out)
}

type issuedToken struct {
	tok string
	ip  int
	at  int64
}

func mutateToken(tok string, op C10Op) (string, bool) { // (token, present)
	b := []byte(tok)
	switch op.Mut {
	case "exact":
		return tok, true
	case "bitflip":
		if len(b) == 0 {
			return "x", true
		}
		b[op.MutPos%len(b)] ^= 1 << uint(op.MutVal%8)
	case "bytechange":
		if len(b) == 0 {
			return "x", true
		}
		b[op.MutPos%len(b)] += byte(op.MutVal)
	case "truncate":
		if len(b) == 0 {
			return "x", true
		}
		b = b[:len(b)-1-op.MutPos%len(b)]
		if len(b) == 0 {
			return "", true
		}
	case "extend":
		b = append(b, byte(op.MutVal))
	case "empty":
		return "", true
	case "absent":
		return "", false
	}
	return string(b), true
}

func runC10(sc C10Sc, c *kit.Case) *kit.Violation {
	nodeID := [20]byte{1, 2, 3}
	sv := newSrv(SrvOpts{NodeID: nodeID, PeerStore: sc.PeerStore})
	defer sv.Close()
	var other *Srv
	var clockMu sync.Mutex
	base := time.Unix(1_700_000_000, 0)
	base = base.Add(-time.Duration(base.UnixNano() % min5)).Add(time.Duration(sc.StartOff))
	now := base
	clock := func() time.Time { clockMu.Lock(); defer clockMu.Unlock(); return now }
	sv.S.VerifSetTokenClock(clock)
	var issued []issuedToken
	tseq := 0
	sender := [20]byte{9, 9, 9}
	acceptedIP, rejectedIP := map[int]bool{}, map[int]bool{}
	boundary := false
	// issue a token by a genuine get / get_peers exchange
	issue := func(s *Srv, ip int, port int, method string) (string, *kit.Violation) {
		tseq++
		tt := []byte(fmt.Sprintf("i%d", tseq))
		from := &net.UDPAddr{IP: net.IP(sc.IPs[ip]), Port: port}
		mark := s.C.NumOut()
		key := "target"
		if method == "get_peers" {
			key = "info_hash"
		}
		s.C.Inject(from, mkQuery(tt, method, mkArgs(sender, BKV{K: key, V: bs(make([]byte, 20))})))
		if !s.barrier(c) {
			return "", nil
		}
		outs := outsFrom(s.C, mark)
		if len(outs) != 1 {
			waitFor(2*time.Second, func() bool { return len(outsFrom(s.C, mark)) == 1 })
			outs = outsFrom(s.C, mark)
		}
		if len(outs) != 1 || !outs[0].OK {
			return "", kit.Violatef("C10:no-token-issued", "%s from %v produced %d replies", method, from, len(outs))
		}
		r, _ := outs[0].R()
		tk, ok := r.Get("token")
		if !ok || tk.Kind != 's' {
			return "", kit.Violatef("C10:no-token-issued", "%s reply from the node carries no token: %s", method, outs[0].Describe())
		}
		return tk.S, nil
	}
	for oi, op := range sc.Ops {
		switch op.Kind {
		case "advance":
			clockMu.Lock()
			if next := now.Add(time.Duration(op.Advance)); next.Year() < 2250 { // (UnixNano is defined up to 2262)
				now = next
			}
			clockMu.Unlock()
		case "issue":
			tok, v := issue(sv, op.IP, op.Port, op.Method)
			if v != nil {
				return v
			}
			if c.Inconclusive != "" {
				return nil
			}
			issued = append(issued, issuedToken{tok, op.IP, clock().UnixNano()})
		case "use":
			if len(issued) == 0 {
				continue
			}
			it := issued[op.Ref%len(issued)]
			tokStr, present := mutateToken(it.tok, op)
			if op.Mut == "other-server" {
				if other == nil {
					other = newSrv(SrvOpts{NodeID: [20]byte{7, 7, 7}, PeerStore: true})
					defer other.Close()
					other.S.VerifSetTokenClock(clock)
				}
				tk, v := issue(other, op.IP, op.Port, "get")
				if v != nil || c.Inconclusive != "" {
					return nil // a failure of the auxiliary server is not this node's violation
				}
				tokStr, present = tk, true
			}
			age := clock().UnixNano() - it.at
			sameIP := it.ip == op.IP
			exact := op.Mut == "exact"
			var verdict string // must | mustnot | either
			switch {
			case exact && sameIP && age <= 2*min5:
				verdict = "must"
			case !exact || !sameIP || age > 3*min5:
				verdict = "mustnot"
				// A mutated token could only be valid by colliding with another valid token for this IP:
				// exclude the one legitimate coincidence: the mutation reproduced a token currently valid
				// for this IP (impossible for bit flips of a SHA-1 output in practice, but truncation to
				// zero length + "empty" are simply invalid).
			default:
				verdict = "either"
			}
			// another token the node issued to this same IP within the last 10 minutes and equal to
			// the one presented makes acceptance legitimate whatever Ref said
			if verdict != "must" && present {
				for _, j := range issued {
					a := clock().UnixNano() - j.at
					if j.tok == tokStr && j.ip == op.IP {
						if a <= 2*min5 {
							verdict = "must"
						} else if a <= 3*min5 && verdict == "mustnot" {
							verdict = "either"
						}
					}
				}
			}
			if age >= 2*min5-1 && age <= 2*min5+1 || age >= 3*min5-1 && age <= 3*min5+1 {
				boundary = true
			}
			tseq++
			tt := []byte(fmt.Sprintf("u%d", tseq))
			from := &net.UDPAddr{IP: net.IP(sc.IPs[op.IP]), Port: op.Port}
			kv := []BKV{}
			ih := make([]byte, 20)
			ih[0], ih[1] = byte(oi), byte(tseq)
			if op.Method == "announce_peer" {
				if op.Shape != "noih" {
					kv = append(kv, BKV{K: "info_hash", V: bs(ih)})
				}
				if op.Shape != "noport" {
					kv = append(kv, BKV{K: "port", V: bint(int64(1000 + oi))})
				}
				if op.Implied {
					kv = append(kv, BKV{K: "implied_port", V: bint(1)})
				}
			} else {
				val := fmt.Sprintf("value-%d-%d", oi, tseq)
				if op.Shape == "oversize" {
					val += string(make([]byte, 1100))
				}
				if op.Shape != "nov" {
					kv = append(kv, BKV{K: "v", V: bstr(val)})
				}
				if op.Shape != "noseq" {
					kv = append(kv, BKV{K: "seq", V: bint(0)})
				}
				if op.Shape == "badsig" {
					kv = append(kv, BKV{K: "k", V: bs(make([]byte, 32))}, BKV{K: "sig", V: bs(make([]byte, 64))})
				}
			}
			if op.Shape != "" && verdict != "mustnot" {
				verdict = "unjudged" // otherwise defective as well: the token rule says nothing about it
			}
			if present {
				kv = append(kv, BKV{K: "token", V: bstr(tokStr)})
			}
			mark := sv.C.NumOut()
			annBefore := len(sv.Announces())
			putsBefore := sv.Store.Puts()
			addsBefore := 0
			if sv.Peers != nil {
				addsBefore = len(sv.Peers.Adds())
			}
			sv.C.Inject(from, mkQuery(tt, op.Method, mkArgs(sender, kv...)))
			if !sv.barrier(c) {
				return nil
			}
			observe := func() (replied, effect bool, desc string) {
				outs := outsFrom(sv.C, mark)
				replied = len(outs) > 0
				if op.Method == "announce_peer" {
					effect = len(sv.Announces()) > annBefore
					if sv.Peers != nil && len(sv.Peers.Adds()) > addsBefore {
						effect = true
					}
				} else {
					effect = sv.Store.Puts() > putsBefore
				}
				if replied {
					desc = outs[0].Describe()
				}
				return
			}
			replied, effect, desc := observe()
			what := fmt.Sprintf("%s from %v with token mutation %q (issued to ip#%d %v ago, used from ip#%d)", op.Method, from, op.Mut, it.ip, time.Duration(age), op.IP)
			switch verdict {
			case "mustnot":
				rejectedIP[op.IP] = true
				if replied {
					return kit.Violatef("C10:reply-to-bad-token", "%s got a reply: %s", what, desc)
				}
				if effect {
					return kit.Violatef("C10:effect-with-bad-token", "%s took effect (stored / announce callback fired)", what)
				}
			case "must":
				acceptedIP[op.IP] = true
				if !replied || !effect {
					// negative evidence: grace wait
					c.Label("grace-wait")
					waitFor(2*time.Second, func() bool { r, e, _ := observe(); return r && e })
					replied, effect, desc = observe()
				}
				if !replied || !effect {
					return kit.Violatef("C10:valid-token-refused", "%s must be honoured (<= 10 min old, same IP) but replied=%v effect=%v %s", what, replied, effect, desc)
				}
				if outs := outsFrom(sv.C, mark); len(outs) != 1 || outs[0].Y != "r" {
					return kit.Violatef("C10:valid-token-not-answered-with-response", "%s: %d datagrams, first %s", what, len(outs), desc)
				}
			case "either":
				c.Label("grey-zone-10-to-15-min")
				if replied != effect {
					waitFor(500*time.Millisecond, func() bool { r, e, _ := observe(); return r == e })
					replied, effect, desc = observe()
				}
				if replied != effect {
					return kit.Violatef("C10:inconsistent-outcome", "%s: replied=%v but effect=%v", what, replied, effect)
				}
			}
			if op.Shape != "" {
				c.Label("shape-" + op.Shape + "-" + verdict)
			}
			c.Label("use-" + op.Mut)
			c.Label("verdict-" + verdict)
		}
	}
	for ip := range acceptedIP {
		if rejectedIP[ip] {
			c.NonTrivial()
		}
	}
	if boundary {
		c.NonTrivial()
		c.Label("window-boundary")
	}
	return nil
}

func init() {
	kit.Register("C10a",
		"rapid: histories over a harness-controlled token clock (VerifSetTokenClock): token issue by genuine get/get_peers from a pool of 1..3 IPs (udp4 or dual-stack representation), clock advances drawn on and around the 5-minute rotation grid (+-1 ns at 5/10/15 min) and jumps of 2^8 / 2^16 / 2^17 / 2^24 rotation intervals, chains of uses a few minutes apart, source IPs one bit or byte apart or embedding the same four bytes in the other address family, writes that are defective in a second way (no seq / no v / oversized / bad signature / no info_hash / no port), announce_peer/put presenting the exact token or a bit-flipped / byte-changed / truncated / extended / empty / absent / other-server token from the same or another IP and any port. Oracle: exact + same IP + age <= 10 min => one response and the write takes effect (announce callback, AddPeer, store Put); other token, other IP or age > 15 min => no datagram and no effect; in between either, consistently. Non-trivial: an accepted and a rejected write for one IP, or a use within 1 ns of a window bound.",
		[]string{"tokens are compared per presented string: if the presented string equals any token the node issued to that IP within the window, acceptance is legitimate"},
		genC10, runC10)
}
