package props

// Shared server-level helpers: server construction over the simulated socket, KRPC builders that do
// not use the library's encoder, reply parsing with the harness's own bencode reader.

import (
	"errors"
	"fmt"
	"net"
	"runtime"
	"sort"
	"sync"
	"time"

	alog "github.com/anacrolix/log"
	"github.com/anacrolix/torrent/iplist"
	"github.com/anacrolix/torrent/metainfo"
	"golang.org/x/time/rate"
	"pgregory.net/rapid"

	dht "github.com/anacrolix/dht/v2"
	"github.com/anacrolix/dht/v2/bep44"
	"github.com/anacrolix/dht/v2/krpc"
	peer_store "github.com/anacrolix/dht/v2/peer-store"
	"github.com/anacrolix/dht/v2/traversal"

	"verifharness/kit"
	"verifharness/refmodel"
	"verifharness/simnet"
)

type BV = refmodel.BV
type BKV = refmodel.BKV

// Src is a simulated remote endpoint as the socket reports it.
type Src struct {
	IP   kit.Hex
	Port int
	// Zone: IPv6 scope zone of a link-local source, as the socket reports it ("" for everything else)
	Zone string
}

func (s Src) UDP() *net.UDPAddr {
	return &net.UDPAddr{IP: net.IP(append([]byte(nil), s.IP...)), Port: s.Port, Zone: s.Zone}
}
func (s Src) String() string { return s.UDP().String() }
func (s Src) NetIP() net.IP  { return net.IP(s.IP) }

// genSrc draws a source address as a socket of the given kind reports it: a udp4 socket yields
// 4-byte IPv4 addresses; a dual-stack socket yields 16-byte addresses (IPv4 peers v4-mapped).
// Small pools make collisions (same IP other port, same endpoint) frequent.
func genSrc(t *rapid.T, dual bool, label string) Src {
	var ip net.IP
	if dual && rapid.Bool().Draw(t, label+".v6") {
		if rapid.Bool().Draw(t, label+".pool") {
			ip = net.ParseIP("2001:db8::1").To16()
			ip[15] = byte(rapid.IntRange(1, 6).Draw(t, label+".host"))
		} else {
			ip = genIPv6(t, label+".ip6")
		}
	} else {
		if rapid.Bool().Draw(t, label+".pool") {
			ip = net.IP{byte(rapid.SampledFrom([]int{1, 10, 88, 192}).Draw(t, label+".net")), 2, 3, byte(rapid.IntRange(1, 6).Draw(t, label+".host"))}
		} else {
			ip = genIPv4(t, label+".ip4")
		}
		if dual {
			ip = ip.To16()
		}
	}
	return Src{IP: kit.Hex(ip), Port: genPort(t, label+".port")}
}

// ---- server construction ----------------------------------------------------------------------

type recStore struct {
	mu    sync.Mutex
	inner bep44.Store
	puts  int
	dels  int
	// failGets: this many of the next Get calls fail with a plain (non-KRPC, not not-found) error
	failGets int
}

// FailNextGets arms (n > 0) or disarms (n = 0) read failures of the backend.
func (r *recStore) FailNextGets(n int) { r.mu.Lock(); r.failGets = n; r.mu.Unlock() }

func (r *recStore) Put(i *bep44.Item) error {
	r.mu.Lock()
	r.puts++
	r.mu.Unlock()
	return r.inner.Put(i)
}
func (r *recStore) Get(t bep44.Target) (*bep44.Item, error) {
	r.mu.Lock()
	fail := r.failGets > 0
	if fail {
		r.failGets--
	}
	r.mu.Unlock()
	if fail {
		return nil, errors.New("simulated storage read failure")
	}
	return r.inner.Get(t)
}

// faultyStore is a bep44.Store of the kind ServerConfig.Store admits: a backend that can fail. Get and
// Put fail for targets / items selected by the scenario, with a plain error or a KRPC error.
type faultyStore struct {
	inner bep44.Store
}

func faultyKind(b byte) int { return int(b) % 4 } // 0,1 = works; 2 = plain error; 3 = KRPC error

func (f faultyStore) fail(k int) error {
	if k == 2 {
		return errors.New("simulated storage backend failure")
	}
	return krpc.Error{Code: 201, Msg: "simulated storage backend failure"}
}
func (f faultyStore) Get(t bep44.Target) (*bep44.Item, error) {
	if k := faultyKind(t[19]); k >= 2 {
		return nil, f.fail(k)
	}
	return f.inner.Get(t)
}
func (f faultyStore) Put(i *bep44.Item) error {
	t := i.Target()
	if k := faultyKind(t[18]); k >= 2 {
		return f.fail(k)
	}
	return f.inner.Put(i)
}
func (f faultyStore) Del(t bep44.Target) error { return f.inner.Del(t) }
func (r *recStore) Del(t bep44.Target) error {
	r.mu.Lock()
	r.dels++
	r.mu.Unlock()
	return r.inner.Del(t)
}
func (r *recStore) Puts() int { r.mu.Lock(); defer r.mu.Unlock(); return r.puts }

type recPeerStore struct {
	mu    sync.Mutex
	inner peer_store.Interface
	adds  []string
}

func (r *recPeerStore) AddPeer(ih peer_store.InfoHash, na krpc.NodeAddr) {
	r.mu.Lock()
	r.adds = append(r.adds, fmt.Sprintf("%x %s", ih[:], na.String()))
	r.mu.Unlock()
	r.inner.AddPeer(ih, na)
}
func (r *recPeerStore) GetPeers(ih peer_store.InfoHash) []krpc.NodeAddr { return r.inner.GetPeers(ih) }
func (r *recPeerStore) Adds() []string {
	r.mu.Lock()
	defer r.mu.Unlock()
	return append([]string(nil), r.adds...)
}

type announceRec struct {
	IH     [20]byte
	IP     net.IP
	Port   int
	PortOk bool
}

type SrvOpts struct {
	NodeID      [20]byte
	Security    bool // enforce BEP 42
	PublicIP    net.IP
	Passive     bool
	PeerStore   bool
	Hook        string // "", "allow", "veto"
	Exp         time.Duration
	Blocklist   iplist.Ranger
	Limiter     *rate.Limiter
	WaitToReply bool
	Starting    []*net.UDPAddr
	StartingErr bool
	Store       bep44.Store
	Local       *net.UDPAddr
	DefaultWant []krpc.Want
}

type Srv struct {
	S         *dht.Server
	C         *simnet.Conn
	Store     *recStore
	Peers     *recPeerStore
	mu        sync.Mutex
	announces []announceRec
	hookCalls int
	ID        [20]byte
}

func (s *Srv) Announces() []announceRec {
	s.mu.Lock()
	defer s.mu.Unlock()
	return append([]announceRec(nil), s.announces...)
}

var silentLogger = alog.Logger{}.WithNames("verif").FilterLevel(alog.Critical)

func newSrv(o SrvOpts) *Srv {
	local := o.Local
	if local == nil {
		local = &net.UDPAddr{IP: net.IP{127, 0, 0, 1}, Port: 4000}
	}
	conn := simnet.New(local)
	sv := &Srv{C: conn}
	inner := o.Store
	if inner == nil {
		inner = bep44.NewMemory()
	}
	sv.Store = &recStore{inner: inner}
	cfg := &dht.ServerConfig{
		NodeId:           krpc.ID(o.NodeID),
		Conn:             conn,
		Passive:          o.Passive,
		WaitToReply:      o.WaitToReply,
		NoSecurity:       !o.Security,
		PublicIP:         o.PublicIP,
		IPBlocklist:      o.Blocklist,
		QueryResendDelay: conn.ResendDelay,
		Store:            sv.Store,
		Exp:              o.Exp,
		Logger:           silentLogger,
		DefaultWant:      o.DefaultWant,
		SendLimiter:      o.Limiter,
	}
	if cfg.Exp == 0 {
		cfg.Exp = 2 * time.Hour
	}
	if cfg.SendLimiter == nil {
		cfg.SendLimiter = rate.NewLimiter(rate.Inf, 1)
	}
	starting := o.Starting
	startingErr := o.StartingErr
	cfg.StartingNodes = func() ([]dht.Addr, error) {
		if startingErr {
			return nil, fmt.Errorf("simulated resolver failure")
		}
		var r []dht.Addr
		for _, a := range starting {
			r = append(r, dht.NewAddr(a))
		}
		return r, nil
	}
	if o.PeerStore {
		sv.Peers = &recPeerStore{inner: &peer_store.InMemory{}}
		cfg.PeerStore = sv.Peers
	}
	cfg.OnAnnouncePeer = func(ih metainfo.Hash, ip net.IP, port int, portOk bool) {
		sv.mu.Lock()
		sv.announces = append(sv.announces, announceRec{[20]byte(ih), append(net.IP(nil), ip...), port, portOk})
		sv.mu.Unlock()
	}
	switch o.Hook {
	case "allow":
		cfg.OnQuery = func(*krpc.Msg, net.Addr) bool { sv.mu.Lock(); sv.hookCalls++; sv.mu.Unlock(); return true }
	case "veto":
		cfg.OnQuery = func(*krpc.Msg, net.Addr) bool { sv.mu.Lock(); sv.hookCalls++; sv.mu.Unlock(); return false }
	}
	s, err := dht.NewServer(cfg)
	if err != nil {
		panic(err)
	}
	sv.S = s
	sv.ID = s.ID()
	return sv
}

func (s *Srv) Close() {
	// Server.Close takes the server lock: on a wedged node it would never return, and the verdict on the
	// wedge must still get out, so it is given two seconds.
	closed := make(chan struct{})
	go func() { s.S.Close(); close(closed) }()
	select {
	case <-closed:
	case <-time.After(2 * time.Second):
		s.C.Close()
		return
	}
	// Server.Close closes the socket from a goroutine; wait until the serve loop is gone so that no
	// goroutine of this case outlives it.
	deadline := time.Now().Add(5 * time.Second)
	for time.Now().Before(deadline) {
		if s.C.Closed() {
			break
		}
		time.Sleep(20 * time.Microsecond)
	}
	s.C.Close()
}

const barrierTimeout = 10 * time.Second

// barrier waits for quiescence; on failure marks the case inconclusive.
func (s *Srv) barrier(c *kit.Case) bool {
	if err := s.C.Quiesce(barrierTimeout); err != nil {
		c.Inconclusive = err.Error()
		return false
	}
	return true
}

// ---- KRPC builders (independent of the library's encoder) ---------------------------------------

func bs(b []byte) BV   { return refmodel.BStr(string(b)) }
func bstr(s string) BV { return refmodel.BStr(s) }
func bint(i int64) BV  { return refmodel.BInt(i) }

// mkQuery builds {"t":t,"y":"q","q":method,"a":args}; args == nil omits "a".
func mkQuery(t []byte, method string, args *BV) []byte {
	d := []BKV{}
	if args != nil {
		d = append(d, BKV{K: "a", V: *args})
	}
	d = append(d, BKV{K: "q", V: bstr(method)}, BKV{K: "t", V: bs(t)}, BKV{K: "y", V: bstr("q")})
	return BV{Kind: 'd', D: d}.Encode(true)
}

func mkArgs(id [20]byte, kv ...BKV) *BV {
	d := append([]BKV{{K: "id", V: bs(id[:])}}, kv...)
	v := BV{Kind: 'd', D: d}
	return &v
}

func mkResponse(t []byte, r BV) []byte {
	return BV{Kind: 'd', D: []BKV{{K: "r", V: r}, {K: "t", V: bs(t)}, {K: "y", V: bstr("r")}}}.Encode(true)
}

func mkError(t []byte, code int64, msg string) []byte {
	return BV{Kind: 'd', D: []BKV{{K: "e", V: refmodel.BList(bint(code), bstr(msg))}, {K: "t", V: bs(t)}, {K: "y", V: bstr("e")}}}.Encode(true)
}

// ---- parsed outbound datagram -------------------------------------------------------------------

type OutMsg struct {
	simnet.Out
	V    BV
	OK   bool // parsed as a dictionary consuming all bytes
	T    string
	HasT bool
	Y    string
	Q    string
}

func parseOut(o simnet.Out) OutMsg {
	m := OutMsg{Out: o}
	v, n, err := refmodel.Parse(o.Data)
	if err != nil || v.Kind != 'd' || n != len(o.Data) {
		return m
	}
	m.V, m.OK = v, true
	if t, ok := v.Get("t"); ok && t.Kind == 's' {
		m.T, m.HasT = t.S, true
	}
	if y, ok := v.Get("y"); ok && y.Kind == 's' {
		m.Y = y.S
	}
	if q, ok := v.Get("q"); ok && q.Kind == 's' {
		m.Q = q.S
	}
	return m
}

func (m OutMsg) R() (BV, bool) { return m.V.Get("r") }
func (m OutMsg) A() (BV, bool) { return m.V.Get("a") }
func (m OutMsg) ErrCode() (int64, bool) {
	e, ok := m.V.Get("e")
	if !ok || e.Kind != 'l' || len(e.L) < 1 || e.L[0].Kind != 'i' {
		return 0, false
	}
	return e.L[0].I, true
}

func (m OutMsg) Describe() string {
	if !m.OK {
		return fmt.Sprintf("to %v: unparseable %q", m.To, m.Data)
	}
	d := m.Data
	if len(d) > 300 {
		d = d[:300]
	}
	return fmt.Sprintf("to %v: %q", m.To, d)
}

func outsFrom(c *simnet.Conn, from int) []OutMsg {
	var r []OutMsg
	for _, o := range c.Outs(from) {
		r = append(r, parseOut(o))
	}
	return r
}

// sameEndpoint: IP equality as addresses (v4-mapped == 4-byte) and port equality.
func sameEndpoint(a *net.UDPAddr, b *net.UDPAddr) bool {
	return a != nil && b != nil && a.Port == b.Port && a.IP.Equal(b.IP)
}

func sortedStrings(m map[string]int) []string {
	var r []string
	for k, v := range m {
		r = append(r, fmt.Sprintf("%s x%d", k, v))
	}
	sort.Strings(r)
	return r
}

// waitFor polls cond for up to grace; used before any verdict that rests on something NOT having
// been observed at the barrier.
func waitFor(grace time.Duration, cond func() bool) bool {
	deadline := time.Now().Add(grace)
	for {
		if cond() {
			return true
		}
		if time.Now().After(deadline) {
			return false
		}
		time.Sleep(200 * time.Microsecond)
	}
}

// exchange injects one datagram and returns everything the node wrote in reaction to it (after the
// quiescence barrier). When wantReply is set and nothing was written at the barrier, the absence is
// re-examined after a grace period (negative evidence is never trusted at once).
func (s *Srv) exchange(c *kit.Case, from *net.UDPAddr, data []byte, wantReply bool) ([]OutMsg, bool) {
	mark := s.C.NumOut()
	s.C.Inject(from, data)
	if !s.barrier(c) {
		return nil, false
	}
	outs := outsFrom(s.C, mark)
	if wantReply && len(outs) == 0 {
		c.Label("grace-wait")
		waitFor(2*time.Second, func() bool { return s.C.NumOut() > mark })
		outs = outsFrom(s.C, mark)
	}
	return outs, true
}

// replyTo picks the datagram among outs addressed to `from` with transaction ID t.
func replyTo(outs []OutMsg, from *net.UDPAddr, t []byte) (OutMsg, bool) {
	for _, o := range outs {
		if o.OK && o.HasT && o.T == string(t) && o.To != nil && o.To.String() == from.String() {
			return o, true
		}
	}
	return OutMsg{}, false
}

func wantList(ws []string) BKV {
	var l []BV
	for _, w := range ws {
		l = append(l, bstr(w))
	}
	return BKV{K: "want", V: BV{Kind: 'l', L: l}}
}

func hasStr(l []string, s string) bool {
	for _, x := range l {
		if x == s {
			return true
		}
	}
	return false
}

// wants computes what a requester asks for under BEP 32: explicit want, else its address family.
// known=false when an explicit want list names neither n4 nor n6 (left open by the property).
func wants(want []string, src net.IP) (w4, w6, known bool) {
	if len(want) != 0 {
		w4, w6 = hasStr(want, "n4"), hasStr(want, "n6")
		return w4, w6, w4 || w6
	}
	is4 := src.To4() != nil
	return is4, !is4, true
}

// barrierOrWedged is the barrier for checks whose property includes "the node does not wedge": when
// the node does not become quiescent, it distinguishes a machine that is merely busy (inconclusive)
// from a serve loop that is blocked for good - every goroutine of the module blocked, none parked in
// the socket read with an empty queue - which is a deadlock.
func (s *Srv) barrierOrWedged(c *kit.Case, pid, what string) *kit.Violation {
	err := s.C.Quiesce(barrierTimeout)
	if err == nil {
		return nil
	}
	for i := 0; i < 3; i++ {
		if ok, _ := s.C.AllBlocked(); !ok {
			c.Inconclusive = err.Error()
			return nil
		}
		time.Sleep(50 * time.Millisecond)
	}
	if s.C.Idle() {
		c.Inconclusive = err.Error()
		return nil
	}
	var stuck []string
	for _, g := range s.C.ModuleGoroutines() {
		stuck = append(stuck, fmt.Sprintf("[%s] %s", g.State, g.Top))
	}
	sort.Strings(stuck)
	return kit.Violatef(pid+":node-wedged", "%s: the node stopped reading its socket - datagrams are queued, and every goroutine of the library is blocked: %v", what, stuck)
}

// stats calls Server.Stats with a deadlock guard: a server lock that was leaked by some earlier path
// would otherwise hang the check instead of being reported. ok=false means "no verdict possible"
// (c.Inconclusive is set) or a violation was returned.
func (s *Srv) stats(c *kit.Case, pid, what string) (st dht.ServerStats, v *kit.Violation, ok bool) {
	done := make(chan dht.ServerStats, 1)
	go func() { done <- s.S.Stats() }()
	select {
	case st = <-done:
		return st, nil, true
	case <-time.After(10 * time.Second):
	}
	for i := 0; i < 3; i++ {
		if blocked, who := s.C.AllBlocked(); !blocked {
			c.Inconclusive = what + ": Stats() still running after 10 s with runnable goroutines: " + who
			return st, nil, false
		}
		time.Sleep(50 * time.Millisecond)
	}
	return st, kit.Violatef(pid+":api-wedged", "%s: Stats() does not return although every goroutine of the library is blocked (the server lock was left held)", what), false
}

// runLoopLast installs a schedule perturbation through the VerifBeforeSelect hook: on every pass, a
// lookup's run loop is held between releasing its lock and blocking until everything else in the
// node has settled (socket queue drained, every other library goroutine blocked), so that every
// completion of that pass lands in that window. It is never a verdict by itself: if the node does not
// settle within 30 ms the loop simply goes on. The returned function removes the hook.
func runLoopLast(sv *Srv) func() {
	c03bMu.Lock() // the hook is a package variable of the library
	traversal.VerifBeforeSelect = func(*traversal.Operation, bool) {
		deadline := time.Now().Add(30 * time.Millisecond)
		next := time.Now()
		for now := time.Now(); now.Before(deadline); now = time.Now() {
			if !now.Before(next) {
				if sv.C.Idle() {
					if ok, _ := sv.C.AllBlocked(); ok {
						return
					}
				}
				next = now.Add(200 * time.Microsecond)
			}
			runtime.Gosched() // (not Sleep: a sleeping goroutine would look blocked to the quiescence barrier)
		}
	}
	return func() {
		traversal.VerifBeforeSelect = nil
		c03bMu.Unlock()
	}
}
