package props

// C15 — KRPC wire codec round-trips and never panics.

import (
	"bytes"
	"encoding"
	"fmt"
	"net"
	"os"
	"path/filepath"
	"reflect"

	"github.com/anacrolix/torrent/bencode"
	"pgregory.net/rapid"

	dht "github.com/anacrolix/dht/v2"
	"github.com/anacrolix/dht/v2/krpc"

	"testing"
	"verifharness/kit"
	"verifharness/refmodel"
)

type AddrSpec struct {
	IP   kit.Hex
	Port int
}

type NodeSpec struct {
	ID   kit.Hex
	IP   kit.Hex
	Port int
}

type ArgsSpec struct {
	ID, InfoHash, Target kit.Hex
	Token                kit.Hex
	Port                 *int
	ImpliedPort          bool
	Want                 []string
	NoSeed, Scrape       int
	V                    *kit.Hex // bencoded value
	Seq                  *int64
	Cas                  int64
	K                    kit.Hex
	Salt                 kit.Hex
	Sig                  kit.Hex
}

type RetSpec struct {
	ID            kit.Hex
	Nodes, Nodes6 []NodeSpec
	NodesNil      bool // nil vs empty
	Token         *kit.Hex
	Values        []AddrSpec
	BFsd, BFpe    *kit.Hex
	Interval, Num *int64
	Samples       *[]kit.Hex
	V             kit.Hex // bencoded value or empty
	K, Sig        kit.Hex
	Seq           *int64
}

type ErrSpec struct {
	Code int
	Msg  kit.Hex
}

type MsgSpec struct {
	Q        kit.Hex
	A        *ArgsSpec
	T        kit.Hex
	Y        kit.Hex
	R        *RetSpec
	E        *ErrSpec
	IP       *AddrSpec
	RO       bool
	ClientID kit.Hex
}

func arr20(h kit.Hex) (r [20]byte) { copy(r[:], h); return }
func arr32(h kit.Hex) (r [32]byte) { copy(r[:], h); return }
func arr64(h kit.Hex) (r [64]byte) { copy(r[:], h); return }

func (n NodeSpec) build() krpc.NodeInfo {
	return krpc.NodeInfo{ID: arr20(n.ID), Addr: krpc.NodeAddr{IP: net.IP(append([]byte(nil), n.IP...)), Port: n.Port}}
}

func (s MsgSpec) Build() krpc.Msg {
	m := krpc.Msg{Q: string(s.Q), T: string(s.T), Y: string(s.Y), ReadOnly: s.RO, ClientId: string(s.ClientID)}
	if s.IP != nil {
		m.IP = krpc.NodeAddr{IP: net.IP(append([]byte(nil), s.IP.IP...)), Port: s.IP.Port}
	}
	if a := s.A; a != nil {
		ma := &krpc.MsgArgs{
			ID: arr20(a.ID), InfoHash: arr20(a.InfoHash), Target: arr20(a.Target), Token: string(a.Token),
			Port: a.Port, ImpliedPort: a.ImpliedPort, NoSeed: a.NoSeed, Scrape: a.Scrape, Seq: a.Seq, Cas: a.Cas,
			K: arr32(a.K), Sig: arr64(a.Sig),
		}
		if a.Salt != nil {
			ma.Salt = []byte(a.Salt)
		}
		for _, w := range a.Want {
			ma.Want = append(ma.Want, krpc.Want(w))
		}
		if a.V != nil {
			bv, _, err := refmodel.Parse(*a.V)
			if err != nil {
				panic(err)
			}
			ma.V = bv.ToGo()
		}
		m.A = ma
	}
	if r := s.R; r != nil {
		mr := &krpc.Return{ID: arr20(r.ID)}
		if !r.NodesNil {
			mr.Nodes = krpc.CompactIPv4NodeInfo{}
			mr.Nodes6 = krpc.CompactIPv6NodeInfo{}
		}
		for _, n := range r.Nodes {
			mr.Nodes = append(mr.Nodes, n.build())
		}
		for _, n := range r.Nodes6 {
			mr.Nodes6 = append(mr.Nodes6, n.build())
		}
		if r.Token != nil {
			tok := string(*r.Token)
			mr.Token = &tok
		}
		for _, v := range r.Values {
			mr.Values = append(mr.Values, krpc.NodeAddr{IP: net.IP(append([]byte(nil), v.IP...)), Port: v.Port})
		}
		if r.BFsd != nil {
			var f krpc.ScrapeBloomFilter
			copy(f[:], *r.BFsd)
			mr.BFsd = &f
		}
		if r.BFpe != nil {
			var f krpc.ScrapeBloomFilter
			copy(f[:], *r.BFpe)
			mr.BFpe = &f
		}
		mr.Interval, mr.Num = r.Interval, r.Num
		if r.Samples != nil {
			var cs krpc.CompactInfohashes
			for _, h := range *r.Samples {
				cs = append(cs, arr20(h))
			}
			mr.Samples = &cs
		}
		if len(r.V) != 0 {
			mr.V = bencode.Bytes(r.V)
		}
		mr.K, mr.Sig, mr.Seq = arr32(r.K), arr64(r.Sig), r.Seq
		m.R = mr
	}
	if e := s.E; e != nil {
		m.E = &krpc.Error{Code: e.Code, Msg: string(e.Msg)}
	}
	return m
}

// ---- generator ------------------------------------------------------------------------------

func genOptBytes(t *rapid.T, n int, label string) kit.Hex {
	if rapid.Bool().Draw(t, label+".set") {
		return genBytesN(t, n, label)
	}
	return nil
}

func genNodeSpec(t *rapid.T, v6 bool, label string) NodeSpec {
	n := NodeSpec{ID: genBytesN(t, 20, label+".id"), Port: rapid.IntRange(0, 65535).Draw(t, label+".port")}
	if v6 {
		n.IP = kit.Hex(genIPv6(t, label+".ip"))
	} else {
		ip := genIPv4(t, label+".ip")
		if rapid.Bool().Draw(t, label+".mapped") {
			ip = ip.To16()
		}
		n.IP = kit.Hex(ip)
	}
	return n
}

func genAddrSpec(t *rapid.T, label string) AddrSpec {
	a := AddrSpec{Port: rapid.IntRange(0, 65535).Draw(t, label+".port")}
	switch rapid.IntRange(0, 2).Draw(t, label+".fam") {
	case 0:
		a.IP = kit.Hex(genIPv4(t, label+".ip"))
	case 1:
		a.IP = kit.Hex(genIPv6(t, label+".ip"))
	case 2:
		a.IP = kit.Hex(genIPv4(t, label+".ip").To16())
	}
	return a
}

func genOptInt64(t *rapid.T, label string) *int64 {
	if rapid.Bool().Draw(t, label+".set") {
		v := genInt64(t, label)
		return &v
	}
	return nil
}

var methods = []string{"ping", "find_node", "get_peers", "announce_peer", "get", "put", "sample_infohashes", "vote", ""}

func genMsgSpec(t *rapid.T) MsgSpec {
	var s MsgSpec
	s.T = genBytes(t, 0, 6, "t")
	s.Y = kit.Hex(rapid.SampledFrom([]string{"q", "r", "e", "", "x", "qq"}).Draw(t, "y"))
	if rapid.Bool().Draw(t, "hasQ") {
		s.Q = kit.Hex(rapid.SampledFrom(methods).Draw(t, "q"))
	}
	s.RO = rapid.Bool().Draw(t, "ro")
	if rapid.Bool().Draw(t, "hasV") {
		s.ClientID = genBytes(t, 0, 6, "clientid")
	}
	if rapid.Bool().Draw(t, "hasIP") {
		a := genAddrSpec(t, "ip")
		s.IP = &a
	}
	if rapid.IntRange(0, 2).Draw(t, "hasA") > 0 {
		a := &ArgsSpec{ID: genBytesN(t, 20, "a.id")}
		a.InfoHash = genOptBytes(t, 20, "a.ih")
		a.Target = genOptBytes(t, 20, "a.target")
		if rapid.Bool().Draw(t, "a.hasToken") {
			a.Token = genBytes(t, 0, 24, "a.token")
		}
		if rapid.Bool().Draw(t, "a.hasPort") {
			p := int(genInt64(t, "a.port"))
			a.Port = &p
		}
		a.ImpliedPort = rapid.Bool().Draw(t, "a.implied")
		nw := rapid.IntRange(0, 3).Draw(t, "a.nwant")
		for i := 0; i < nw; i++ {
			a.Want = append(a.Want, rapid.SampledFrom([]string{"n4", "n6", "", "n5", "N4"}).Draw(t, "a.want"))
		}
		a.NoSeed = rapid.IntRange(-1, 2).Draw(t, "a.noseed")
		a.Scrape = rapid.IntRange(-1, 2).Draw(t, "a.scrape")
		if rapid.Bool().Draw(t, "a.hasV") {
			a.V = hexp(genBV(t, 2, "a.v").Encode(true))
		}
		a.Seq = genOptInt64(t, "a.seq")
		if rapid.Bool().Draw(t, "a.hasCas") {
			a.Cas = genInt64(t, "a.cas")
		}
		a.K = genOptBytes(t, 32, "a.k")
		if rapid.Bool().Draw(t, "a.hasSalt") {
			a.Salt = genBytes(t, 1, 70, "a.salt")
		}
		a.Sig = genOptBytes(t, 64, "a.sig")
		s.A = a
	}
	if rapid.IntRange(0, 2).Draw(t, "hasR") > 0 {
		r := &RetSpec{ID: genBytesN(t, 20, "r.id")}
		r.NodesNil = rapid.Bool().Draw(t, "r.nodesnil")
		for i, n := 0, rapid.IntRange(0, 9).Draw(t, "r.nnodes"); i < n; i++ {
			r.Nodes = append(r.Nodes, genNodeSpec(t, false, "r.node"))
		}
		for i, n := 0, rapid.IntRange(0, 9).Draw(t, "r.nnodes6"); i < n; i++ {
			r.Nodes6 = append(r.Nodes6, genNodeSpec(t, true, "r.node6"))
		}
		if rapid.Bool().Draw(t, "r.hasToken") {
			r.Token = hexp(genBytes(t, 0, 24, "r.token"))
		}
		for i, n := 0, rapid.IntRange(0, 5).Draw(t, "r.nvalues"); i < n; i++ {
			r.Values = append(r.Values, genAddrSpec(t, "r.value"))
		}
		if rapid.IntRange(0, 3).Draw(t, "r.hasBF") == 0 {
			r.BFsd = hexp(genBytesN(t, 256, "r.bfsd"))
			if rapid.Bool().Draw(t, "r.hasBFpe") {
				r.BFpe = hexp(make([]byte, 256))
			}
		}
		r.Interval = genOptInt64(t, "r.interval")
		r.Num = genOptInt64(t, "r.num")
		if rapid.Bool().Draw(t, "r.hasSamples") {
			var ss []kit.Hex
			for i, n := 0, rapid.IntRange(0, 4).Draw(t, "r.nsamples"); i < n; i++ {
				ss = append(ss, genBytesN(t, 20, "r.sample"))
			}
			r.Samples = &ss
		}
		if rapid.Bool().Draw(t, "r.hasV") {
			r.V = genBV(t, 2, "r.v").Encode(true)
		}
		r.K = genOptBytes(t, 32, "r.k")
		r.Sig = genOptBytes(t, 64, "r.sig")
		r.Seq = genOptInt64(t, "r.seq")
		s.R = r
	}
	if rapid.IntRange(0, 3).Draw(t, "hasE") == 0 {
		s.E = &ErrSpec{Code: int(genInt64(t, "e.code")), Msg: genBytes(t, 0, 12, "e.msg")}
	}
	return s
}

// ---- normalisation ---------------------------------------------------------------------------

func normIP(ip net.IP) net.IP {
	if len(ip) == 0 {
		return nil
	}
	return ip
}

// normMsg maps a Msg to the representative of its equivalence class under the stated
// normalisation: nil == empty for slices and byte strings, contacts in `nodes` compared as
// IPv4 addresses (4-byte form), contacts in `nodes6` in 16-byte form.
func normMsg(m krpc.Msg) krpc.Msg {
	m.IP.IP = normIP(m.IP.IP)
	if m.A != nil {
		a := *m.A
		if len(a.Want) == 0 {
			a.Want = nil
		}
		if len(a.Salt) == 0 {
			a.Salt = nil
		}
		m.A = &a
	}
	if m.R != nil {
		r := *m.R
		var n4 krpc.CompactIPv4NodeInfo
		for _, n := range r.Nodes {
			n.Addr.IP = n.Addr.IP.To4()
			n4 = append(n4, n)
		}
		r.Nodes = n4
		var n6 krpc.CompactIPv6NodeInfo
		for _, n := range r.Nodes6 {
			n.Addr.IP = n.Addr.IP.To16()
			n6 = append(n6, n)
		}
		r.Nodes6 = n6
		var vs []krpc.NodeAddr
		for _, v := range r.Values {
			v.IP = normIP(v.IP)
			vs = append(vs, v)
		}
		r.Values = vs
		if r.Samples != nil && len(*r.Samples) == 0 {
			var empty krpc.CompactInfohashes
			r.Samples = &empty
		}
		if len(r.V) == 0 {
			r.V = nil
		}
		m.R = &r
	}
	return m
}

func countFields(s MsgSpec) (n int, hasList bool) {
	if s.A != nil {
		v := reflect.ValueOf(*s.A)
		for i := 0; i < v.NumField(); i++ {
			if !v.Field(i).IsZero() {
				n++
			}
		}
	}
	if s.R != nil {
		v := reflect.ValueOf(*s.R)
		for i := 0; i < v.NumField(); i++ {
			if !v.Field(i).IsZero() {
				n++
			}
		}
		hasList = len(s.R.Nodes)+len(s.R.Nodes6)+len(s.R.Values) > 0
	}
	return
}

// decodeMsg decodes like the server does: trailing bytes are tolerated.
func decodeMsg(b []byte) (m krpc.Msg, err error) {
	err = bencode.Unmarshal(b, &m)
	if _, ok := err.(bencode.ErrUnusedTrailingBytes); ok {
		err = nil
	}
	return
}

// guard converts a panic in codec code into a violation.
func guard(key string, v **kit.Violation, what func() string) {
	if r := recover(); r != nil {
		*v = kit.Violatef(key, "panic %v on %s", r, what())
	}
}

func runC15a(s MsgSpec, c *kit.Case) (v *kit.Violation) {
	defer guard("C15:panic-roundtrip", &v, func() string { return fmt.Sprintf("%+v", s) })
	m := s.Build()
	nf, hasList := countFields(s)
	if nf >= 6 && hasList {
		c.NonTrivial()
	}
	if s.A != nil {
		c.Label("has-a")
	}
	if s.R != nil {
		c.Label("has-r")
	}
	if s.E != nil {
		c.Label("has-e")
	}
	b, err := bencode.Marshal(m)
	if err != nil {
		return kit.Violatef("C15:encode-error", "well-formed message does not encode: %v", err)
	}
	m2, err := decodeMsg(b)
	if err != nil {
		return kit.Violatef("C15:decode-of-encoded", "encoded message %q does not decode: %v", b, err)
	}
	if !reflect.DeepEqual(normMsg(m), normMsg(m2)) {
		return kit.Violatef("C15:roundtrip-differs", "decode(encode(m)) != m:\n m=%+v\n m2=%+v\n bytes=%q\n A: %+v vs %+v\n R: %+v vs %+v", normMsg(m), normMsg(m2), b, m.A, m2.A, m.R, m2.R)
	}
	// The encoded form is a datagram that decodes, so its re-encoding must be a fixpoint. (b itself
	// need not be: an empty non-nil list is written as a zero-length string and read back as absent.)
	y, err := bencode.Marshal(m2)
	if err != nil {
		return kit.Violatef("C15:reencode-error", "re-encode failed: %v", err)
	}
	m3, err := decodeMsg(y)
	if err != nil {
		return kit.Violatef("C15:fixpoint-decode", "re-encoded bytes %q do not decode: %v", y, err)
	}
	y2, err := bencode.Marshal(m3)
	if err != nil || !bytes.Equal(y, y2) {
		return kit.Violatef("C15:not-fixpoint", "re-encoding is not a fixpoint (%v):\n %q\n %q", err, y, y2)
	}
	return nil
}

// ---- C15b: arbitrary / mutated bytes into the Msg decoder --------------------------------------

type BytesCase struct {
	Data kit.Hex
}

// mutateBytes applies byte-level mutations to a valid encoding.
func mutateBytes(t *rapid.T, b []byte) []byte {
	b = append([]byte(nil), b...)
	for i, n := 0, rapid.IntRange(0, 3).Draw(t, "nmut"); i < n && len(b) > 0; i++ {
		pos := rapid.IntRange(0, len(b)-1).Draw(t, "pos")
		switch rapid.IntRange(0, 5).Draw(t, "mut") {
		case 0:
			b[pos] ^= 1 << uint(rapid.IntRange(0, 7).Draw(t, "bit"))
		case 1:
			b = b[:pos]
		case 2:
			b = append(b[:pos], b[pos+1:]...)
		case 3:
			ins := genBytes(t, 1, 4, "ins")
			b = append(b[:pos], append(ins, b[pos:]...)...)
		case 4:
			b[pos] = rapid.SampledFrom([]byte("deil:0123456789-")).Draw(t, "ch")
		case 5:
			b = append(b, genBytes(t, 1, 6, "trail")...)
		}
	}
	return b
}

// genWireBV draws a KRPC-shaped bencode dictionary in which any field may have the wrong type or
// length: the decoder must cope with all of them.
func genWireDict(t *rapid.T) refmodel.BV {
	fieldVal := func(label string, lens ...int) refmodel.BV {
		switch rapid.IntRange(0, 9).Draw(t, label+".shape") {
		case 0:
			return refmodel.BInt(genInt64(t, label+".i"))
		case 1:
			return genBV(t, 2, label+".any")
		case 2:
			return refmodel.BStr(string(genBytes(t, 0, 80, label+".s")))
		default:
			n := rapid.SampledFrom(lens).Draw(t, label+".len")
			k := rapid.IntRange(0, 3).Draw(t, label+".mult")
			if uniformInt(t, 12, label+".long") == 0 {
				// long compact lists: counts on and around powers of two and far beyond any reply seen in practice
				k = []int{8, 9, 16, 31, 64, 100, 127, 128, 129, 130, 200, 255, 256, 257, 700}[uniformInt(t, 15, label+".longmult")]
			}
			d := rapid.IntRange(-1, 1).Draw(t, label+".delta")
			l := n*k + d
			if rapid.Bool().Draw(t, label+".exact") {
				l = n * k
			}
			if l < 0 {
				l = 0
			}
			return refmodel.BStr(string(genBytesN(t, l, label+".bytes")))
		}
	}
	pick := func(d *[]refmodel.BKV, key string, lens ...int) {
		if rapid.Bool().Draw(t, key+".present") {
			*d = append(*d, refmodel.BKV{K: key, V: fieldVal(key, lens...)})
		}
	}
	var top []refmodel.BKV
	top = append(top, refmodel.BKV{K: "t", V: fieldVal("t", 2)})
	top = append(top, refmodel.BKV{K: "y", V: refmodel.BStr(rapid.SampledFrom([]string{"q", "r", "e", "x"}).Draw(t, "y"))})
	if rapid.Bool().Draw(t, "hasq") {
		top = append(top, refmodel.BKV{K: "q", V: refmodel.BStr(rapid.SampledFrom(methods).Draw(t, "q"))})
	}
	if rapid.Bool().Draw(t, "hasa") {
		var a []refmodel.BKV
		pick(&a, "id", 20)
		pick(&a, "info_hash", 20)
		pick(&a, "target", 20)
		pick(&a, "token", 20)
		pick(&a, "port", 2)
		pick(&a, "implied_port", 1)
		pick(&a, "want", 2)
		pick(&a, "noseed", 1)
		pick(&a, "scrape", 1)
		pick(&a, "v", 10)
		pick(&a, "seq", 1)
		pick(&a, "cas", 1)
		pick(&a, "k", 32)
		pick(&a, "salt", 64)
		pick(&a, "sig", 64)
		top = append(top, refmodel.BKV{K: "a", V: refmodel.BV{Kind: 'd', D: a}})
	}
	if rapid.Bool().Draw(t, "hasr") {
		var r []refmodel.BKV
		pick(&r, "id", 20)
		pick(&r, "nodes", 26)
		pick(&r, "nodes6", 38)
		pick(&r, "token", 20)
		if rapid.Bool().Draw(t, "values.present") {
			var l []refmodel.BV
			for i, n := 0, rapid.IntRange(0, 4).Draw(t, "nvalues"); i < n; i++ {
				l = append(l, fieldVal("value", 6, 18))
			}
			r = append(r, refmodel.BKV{K: "values", V: refmodel.BV{Kind: 'l', L: l}})
		}
		pick(&r, "BFsd", 256)
		pick(&r, "BFpe", 256)
		pick(&r, "interval", 1)
		pick(&r, "num", 1)
		pick(&r, "samples", 20)
		pick(&r, "v", 10)
		pick(&r, "k", 32)
		pick(&r, "sig", 64)
		pick(&r, "seq", 1)
		top = append(top, refmodel.BKV{K: "r", V: refmodel.BV{Kind: 'd', D: r}})
	}
	if rapid.Bool().Draw(t, "hase") {
		switch rapid.IntRange(0, 3).Draw(t, "e.shape") {
		case 0:
			top = append(top, refmodel.BKV{K: "e", V: refmodel.BList(refmodel.BInt(genInt64(t, "e.code")), refmodel.BStr("x"))})
		case 1:
			top = append(top, refmodel.BKV{K: "e", V: refmodel.BStr("oops")})
		case 2:
			top = append(top, refmodel.BKV{K: "e", V: refmodel.BList()})
		default:
			top = append(top, refmodel.BKV{K: "e", V: genBV(t, 2, "e.any")})
		}
	}
	pick(&top, "ip", 6, 18)
	pick(&top, "ro", 1)
	pick(&top, "v", 4)
	return refmodel.BV{Kind: 'd', D: top}
}

func genC15b(t *rapid.T) BytesCase {
	switch rapid.IntRange(0, 3).Draw(t, "family") {
	case 0:
		return BytesCase{Data: genBytes(t, 0, 200, "raw")}
	case 1:
		m := genMsgSpec(t).Build()
		b, err := bencode.Marshal(m)
		if err != nil {
			t.Fatalf("generator produced unencodable message: %v", err)
		}
		return BytesCase{Data: mutateBytes(t, b)}
	case 2:
		return BytesCase{Data: genWireDict(t).Encode(rapid.Bool().Draw(t, "sorted"))}
	default:
		return BytesCase{Data: mutateBytes(t, genWireDict(t).Encode(true))}
	}
}

func runC15b(s BytesCase, c *kit.Case) (v *kit.Violation) {
	defer guard("C15:panic-decode", &v, func() string { return fmt.Sprintf("%q", []byte(s.Data)) })
	m, err := decodeMsg(s.Data)
	if err != nil {
		c.Label("rejected")
		return nil
	}
	c.Label("decoded")
	y, err := bencode.Marshal(m)
	if err != nil {
		return kit.Violatef("C15:reencode-error", "datagram %q decodes but does not re-encode: %v", []byte(s.Data), err)
	}
	if !bytes.Equal(y, s.Data) {
		c.NonTrivial() // decodes and is not already a fixpoint
	}
	m2, err := decodeMsg(y)
	if err != nil {
		return kit.Violatef("C15:fixpoint-decode", "re-encoded bytes %q (from %q) do not decode: %v", y, []byte(s.Data), err)
	}
	y2, err := bencode.Marshal(m2)
	if err != nil {
		return kit.Violatef("C15:fixpoint-encode", "second re-encode failed: %v", err)
	}
	if !bytes.Equal(y, y2) {
		return kit.Violatef("C15:not-fixpoint", "re-encoding is not a fixpoint:\n x=%q\n y=%q\n y2=%q", []byte(s.Data), y, y2)
	}
	return nil
}

// ---- C15c: compact-format decoders ---------------------------------------------------------------

type CompactCase struct {
	Decoder string
	Data    kit.Hex
}

type compactDecoder struct {
	size int // element size; 0 = single element of flexible length
	new  func() interface {
		encoding.BinaryUnmarshaler
	}
	// re-encode and element count
	marshal func(any) ([]byte, error)
	count   func(any) int
}

var compactDecoders = map[string]compactDecoder{
	"CompactIPv4NodeAddrs": {6, func() interface{ encoding.BinaryUnmarshaler } { return new(krpc.CompactIPv4NodeAddrs) },
		func(x any) ([]byte, error) { return x.(*krpc.CompactIPv4NodeAddrs).MarshalBinary() },
		func(x any) int { return len(*x.(*krpc.CompactIPv4NodeAddrs)) }},
	"CompactIPv6NodeAddrs": {18, func() interface{ encoding.BinaryUnmarshaler } { return new(krpc.CompactIPv6NodeAddrs) },
		func(x any) ([]byte, error) { return x.(*krpc.CompactIPv6NodeAddrs).MarshalBinary() },
		func(x any) int { return len(*x.(*krpc.CompactIPv6NodeAddrs)) }},
	"CompactIPv4NodeInfo": {26, func() interface{ encoding.BinaryUnmarshaler } { return new(krpc.CompactIPv4NodeInfo) },
		func(x any) ([]byte, error) { return x.(*krpc.CompactIPv4NodeInfo).MarshalBinary() },
		func(x any) int { return len(*x.(*krpc.CompactIPv4NodeInfo)) }},
	"CompactIPv6NodeInfo": {38, func() interface{ encoding.BinaryUnmarshaler } { return new(krpc.CompactIPv6NodeInfo) },
		func(x any) ([]byte, error) { return x.(*krpc.CompactIPv6NodeInfo).MarshalBinary() },
		func(x any) int { return len(*x.(*krpc.CompactIPv6NodeInfo)) }},
	"CompactInfohashes": {20, func() interface{ encoding.BinaryUnmarshaler } { return new(krpc.CompactInfohashes) },
		func(x any) ([]byte, error) { return x.(*krpc.CompactInfohashes).MarshalBinary() },
		func(x any) int { return len(*x.(*krpc.CompactInfohashes)) }},
	// Single-element decoders: must not panic on any length; when they accept, re-encoding must
	// reproduce the input.
	"NodeAddr": {0, func() interface{ encoding.BinaryUnmarshaler } { return new(krpc.NodeAddr) },
		func(x any) ([]byte, error) { return x.(*krpc.NodeAddr).MarshalBinary() }, nil},
	"NodeInfo": {0, func() interface{ encoding.BinaryUnmarshaler } { return new(krpc.NodeInfo) },
		func(x any) ([]byte, error) { return x.(*krpc.NodeInfo).MarshalBinary() }, nil},
}

var compactNames = []string{"CompactIPv4NodeAddrs", "CompactIPv6NodeAddrs", "CompactIPv4NodeInfo", "CompactIPv6NodeInfo", "CompactInfohashes", "NodeAddr", "NodeInfo"}

func genC15c(t *rapid.T) CompactCase {
	name := rapid.SampledFrom(compactNames).Draw(t, "decoder")
	d := compactDecoders[name]
	var l int
	size := d.size
	if size == 0 {
		size = rapid.SampledFrom([]int{6, 18, 20, 26, 38}).Draw(t, "size")
	}
	switch rapid.IntRange(0, 3).Draw(t, "lenkind") {
	case 0:
		l = rapid.IntRange(0, 25).Draw(t, "len")
	case 1:
		l = size * rapid.IntRange(0, 12).Draw(t, "k")
	default:
		l = size*rapid.IntRange(0, 12).Draw(t, "k") + rapid.SampledFrom([]int{-1, 1, size / 2, size - 1}).Draw(t, "delta")
		if l < 0 {
			l = 0
		}
	}
	if uniformInt(t, 10, "long") == 0 {
		// long lists: entry counts on and around powers of two
		l = size * []int{31, 64, 100, 127, 128, 129, 130, 200, 255, 256, 257, 1000}[uniformInt(t, 12, "longk")]
	}
	data := genBytesN(t, l, "data")
	if (size == 18 || size == 38) && rapid.Bool().Draw(t, "special-ips") {
		// 16-byte addresses with structure random bytes never have: v4-mapped, v4-compatible, unspecified, all ones
		for off := size - 18; off+18 <= len(data); off += size {
			switch uniformInt(t, 6, "ipkind") {
			case 0:
				copy(data[off:], []byte{0, 0, 0, 0, 0, 0, 0, 0, 0, 0, 0xff, 0xff})
			case 1:
				copy(data[off:], make([]byte, 12))
			case 2:
				copy(data[off:], make([]byte, 16))
			case 3:
				for i := 0; i < 16; i++ {
					data[off+i] = 0xff
				}
			}
		}
	}
	return CompactCase{Decoder: name, Data: data}
}

func runC15c(s CompactCase, c *kit.Case) (v *kit.Violation) {
	defer guard("C15:panic-compact-"+s.Decoder, &v, func() string { return fmt.Sprintf("%s <- %d bytes %x", s.Decoder, len(s.Data), []byte(s.Data)) })
	d, ok := compactDecoders[s.Decoder]
	if !ok {
		return nil
	}
	x := d.new()
	err := x.UnmarshalBinary(append([]byte(nil), s.Data...))
	c.Label(s.Decoder)
	if d.size == 0 {
		if err == nil {
			if len(s.Data) >= 6 {
				c.NonTrivial()
			}
			b, merr := d.marshal(x)
			if merr != nil || !bytes.Equal(b, s.Data) {
				return kit.Violatef("C15:compact-reencode", "%s accepted %x but re-encodes to %x (%v)", s.Decoder, []byte(s.Data), b, merr)
			}
		}
		return nil
	}
	if len(s.Data) >= d.size {
		c.NonTrivial()
	}
	if len(s.Data)%d.size != 0 {
		if err == nil {
			return kit.Violatef("C15:compact-accepts-bad-length", "%s accepted %d bytes (entry size %d)", s.Decoder, len(s.Data), d.size)
		}
		return nil
	}
	if err != nil {
		return kit.Violatef("C15:compact-rejects-good-length", "%s rejected %d bytes (entry size %d): %v", s.Decoder, len(s.Data), d.size, err)
	}
	if n := d.count(x); n != len(s.Data)/d.size {
		return kit.Violatef("C15:compact-count", "%s decoded %d elements from %d bytes", s.Decoder, n, len(s.Data))
	}
	b, merr := d.marshal(x)
	if merr != nil || !bytes.Equal(b, s.Data) {
		return kit.Violatef("C15:compact-reencode", "%s: %x re-encodes to %x (%v)", s.Decoder, []byte(s.Data), b, merr)
	}
	// The bencoded form must behave the same.
	var viaBencode any
	switch s.Decoder {
	case "CompactIPv4NodeAddrs":
		viaBencode = new(krpc.CompactIPv4NodeAddrs)
	case "CompactIPv6NodeAddrs":
		viaBencode = new(krpc.CompactIPv6NodeAddrs)
	case "CompactIPv4NodeInfo":
		viaBencode = new(krpc.CompactIPv4NodeInfo)
	case "CompactIPv6NodeInfo":
		viaBencode = new(krpc.CompactIPv6NodeInfo)
	case "CompactInfohashes":
		viaBencode = new(krpc.CompactInfohashes)
	}
	enc := refmodel.BStr(string(s.Data)).Encode(true)
	if err := bencode.Unmarshal(enc, viaBencode); err != nil {
		return kit.Violatef("C15:compact-bencode-rejects", "%s: bencoded form of %d bytes rejected: %v", s.Decoder, len(s.Data), err)
	}
	b2, err := bencode.Marshal(viaBencode)
	if err != nil || !bytes.Equal(b2, enc) {
		return kit.Violatef("C15:compact-bencode-reencode", "%s: %q re-encodes to %q (%v)", s.Decoder, enc, b2, err)
	}
	return nil
}

// ---- C15d: bencode-level decoders of ID, Error, NodeAddr; nodes file -----------------------------

type BencDecCase struct {
	Decoder string
	Data    kit.Hex
}

func genC15d(t *rapid.T) BencDecCase {
	name := rapid.SampledFrom([]string{"ID", "Error", "NodeAddr", "CompactIPv4NodeInfo", "CompactInfohashes"}).Draw(t, "decoder")
	var data []byte
	switch rapid.IntRange(0, 4).Draw(t, "shape") {
	case 4:
		// string headers a hand-written length parser may get wrong: signs, leading zeros, blanks, lengths
		// beyond the payload or beyond every integer width
		hdr := pick(t, "hdr", "-1", "-6", "-0", "+6", "06", "006", " 6", "6 ", "0x6", "6.0", "", "18446744073709551616", "4294967302", "9223372036854775807", "-9223372036854775808", "2147483654", "7", "5")
		data = append([]byte(hdr+":"), genBytesN(t, pick(t, "hdr.payload", 0, 5, 6, 7, 18), "hdr.bytes")...)
	case 0:
		data = genBytes(t, 0, 40, "raw")
	case 1:
		data = genBV(t, 3, "bv").Encode(true)
	case 2:
		n := rapid.SampledFrom([]int{0, 1, 2, 5, 6, 7, 17, 18, 19, 20, 21, 26, 38, 40}).Draw(t, "n")
		data = refmodel.BStr(string(genBytesN(t, n, "s"))).Encode(true)
	default:
		// error-shaped lists
		var l []refmodel.BV
		for i, n := 0, rapid.IntRange(0, 3).Draw(t, "n"); i < n; i++ {
			l = append(l, genBV(t, 1, "e"))
		}
		data = refmodel.BV{Kind: 'l', L: l}.Encode(true)
	}
	if rapid.IntRange(0, 4).Draw(t, "mutate") == 0 {
		data = mutateBytes(t, data)
	}
	return BencDecCase{Decoder: name, Data: data}
}

func runC15d(s BencDecCase, c *kit.Case) (v *kit.Violation) {
	defer guard("C15:panic-bencdec-"+s.Decoder, &v, func() string { return fmt.Sprintf("%s <- %q", s.Decoder, []byte(s.Data)) })
	c.Label(s.Decoder)
	var err error
	in := append([]byte(nil), s.Data...)
	switch s.Decoder {
	case "ID":
		var id krpc.ID
		err = id.UnmarshalBencode(in)
		if err == nil {
			// (ID also accepts longer strings, keeping the first 20 bytes; the property only speaks about
			// the compact list types, so that is not asserted.)
			bv, _, perr := refmodel.Parse(s.Data)
			if perr == nil && bv.Kind == 's' && len(bv.S) == 20 {
				c.NonTrivial()
				if string(id[:]) != bv.S {
					return kit.Violatef("C15:id-value", "ID decoded %x from %q", id[:], []byte(s.Data))
				}
			}
		}
	case "Error":
		var e krpc.Error
		err = e.UnmarshalBencode(in)
		if err == nil {
			c.NonTrivial()
			b, merr := e.MarshalBencode()
			if merr != nil {
				return kit.Violatef("C15:error-reencode", "Error decoded from %q does not re-encode: %v", []byte(s.Data), merr)
			}
			var e2 krpc.Error
			if derr := e2.UnmarshalBencode(b); derr != nil || e2 != e {
				return kit.Violatef("C15:error-roundtrip", "Error %+v re-encoded %q decodes to %+v (%v)", e, b, e2, derr)
			}
		}
	case "NodeAddr":
		var a krpc.NodeAddr
		err = a.UnmarshalBencode(in)
		if err == nil {
			c.NonTrivial()
			if _, merr := a.MarshalBencode(); merr != nil {
				return kit.Violatef("C15:nodeaddr-reencode", "NodeAddr from %q does not re-encode: %v", []byte(s.Data), merr)
			}
		}
	case "CompactIPv4NodeInfo":
		var x krpc.CompactIPv4NodeInfo
		err = x.UnmarshalBencode(in)
		if err == nil && len(x) > 0 {
			c.NonTrivial()
		}
	case "CompactInfohashes":
		var x krpc.CompactInfohashes
		err = x.UnmarshalBencode(in)
		if err == nil && len(x) > 0 {
			c.NonTrivial()
		}
	}
	_ = err
	return nil
}

type NodesFileCase struct {
	Nodes []NodeSpec
}

func genC15e(t *rapid.T) NodesFileCase {
	var s NodesFileCase
	for i, n := 0, rapid.IntRange(0, 20).Draw(t, "n"); i < n; i++ {
		s.Nodes = append(s.Nodes, genNodeSpec(t, rapid.Bool().Draw(t, "v6"), "node"))
	}
	return s
}

var nodesFileDir string

func runC15e(s NodesFileCase, c *kit.Case) (v *kit.Violation) {
	defer guard("C15:panic-nodesfile", &v, func() string { return fmt.Sprintf("%+v", s) })
	if nodesFileDir == "" {
		d, err := os.MkdirTemp("", "verif-nodes")
		if err != nil {
			panic(err)
		}
		nodesFileDir = d
	}
	var ns []krpc.NodeInfo
	for _, n := range s.Nodes {
		ns = append(ns, n.build())
	}
	if len(ns) >= 2 {
		c.NonTrivial()
	}
	path := filepath.Join(nodesFileDir, "nodes.bin")
	defer os.Remove(path)
	if err := dht.WriteNodesToFile(ns, path); err != nil {
		return kit.Violatef("C15:nodesfile-write", "WriteNodesToFile: %v", err)
	}
	got, err := dht.ReadNodesFromFile(path)
	if err != nil {
		return kit.Violatef("C15:nodesfile-read", "ReadNodesFromFile: %v", err)
	}
	if len(got) != len(ns) {
		return kit.Violatef("C15:nodesfile-count", "wrote %d nodes, read %d", len(ns), len(got))
	}
	for i := range ns {
		if got[i].ID != ns[i].ID || got[i].Addr.Port != ns[i].Addr.Port || !got[i].Addr.IP.Equal(ns[i].Addr.IP) {
			return kit.Violatef("C15:nodesfile-differs", "node %d: wrote %v read %v", i, ns[i], got[i])
		}
	}
	return nil
}

func init() {
	kit.Register("C15a",
		"rapid: krpc.Msg values over the full field set (BEP 5/32/33/42/43/44/51), nil vs empty lists, contacts in the family of their list; oracle decode(encode(m)) == m under the stated normalisation and the re-encoding of the decoded message is a fixpoint. Non-trivial: >= 6 argument/return fields set including a contact list.",
		[]string{"nil and empty slices are identified; contacts in `nodes` are compared as IPv4 addresses"},
		genMsgSpec, runC15a)
	kit.Register("C15b",
		"rapid: raw bytes, byte-mutated valid encodings, and KRPC-shaped dictionaries with wrongly typed / wrongly sized fields fed to bencode decoding of Msg; if x decodes then y=encode(decode(x)) succeeds and encode(decode(y)) == y; no panic. Non-trivial: input decodes and is not already its own re-encoding.",
		[]string{"trailing bytes after the message are tolerated, as the server tolerates them"},
		genC15b, runC15b)
	kit.Register("C15c",
		"rapid: byte strings with lengths k*size+{-1,0,+1} and 0..25 fed to every exported compact UnmarshalBinary; accepted iff length is a multiple of the entry size, len/size elements, byte-identical re-encoding, same through bencode. Non-trivial: length >= one entry.",
		nil, genC15c, runC15c)
	kit.Register("C15d",
		"rapid: arbitrary bencode and raw bytes fed to UnmarshalBencode of ID, Error, NodeAddr and compact lists; no panic, ID yields the bytes of a 20-byte string, Error round-trips. Non-trivial: input accepted.",
		nil, genC15d, runC15d)
	kit.Register("C15e",
		"rapid: node lists written with WriteNodesToFile and read back; equal as (ID, address, port) lists. Non-trivial: >= 2 nodes.",
		nil, genC15e, runC15e)
}

// FuzzC15Decode: byte-level coverage-guided target (thorough tier) with the same oracles as C15b
// (decode => re-encode is a fixpoint, no panic) and C15c (compact decoders accept exactly the
// multiples of their entry size and re-encode identically).
func FuzzC15Decode(f *testing.F) {
	for _, s := range []string{
		"d1:ad2:id20:abcdefghij0123456789e1:q4:ping1:t2:aa1:y1:qe",
		"d1:ad2:id20:abcdefghij01234567899:info_hash20:mnopqrstuvwxyz1234564:porti6881e5:token8:aoeusnth4:wantl2:n42:n6ee1:q13:announce_peer1:t2:aa1:y1:qe",
		"d1:rd2:id20:abcdefghij01234567895:nodes26:aaaaaaaaaaaaaaaaaaaaxxxxyy6:nodes638:aaaaaaaaaaaaaaaaaaaaxxxxxxxxxxxxxxxxyy5:token3:tok6:valuesl6:axje.u18:aaaaaaaaaaaaaaaayyee1:t2:aa1:y1:re",
		"d1:rd2:id20:abcdefghij01234567891:k32:aaaaaaaaaaaaaaaaaaaaaaaaaaaaaaaa3:seqi4e3:sig64:aaaaaaaaaaaaaaaaaaaaaaaaaaaaaaaaaaaaaaaaaaaaaaaaaaaaaaaaaaaaaaaa1:v1:xe1:t2:aa1:y1:re",
		"d1:eli201e23:A Generic Error Ocurrede1:t2:aa1:y1:ee",
		"d1:e5:hello1:t2:aa1:y1:ee",
		"d2:ip6:abcdef1:rd2:id20:abcdefghij01234567897:samples40:aaaaaaaaaaaaaaaaaaaabbbbbbbbbbbbbbbbbbbb8:intervali10e3:numi2ee1:t2:aa1:y1:re",
		"d1:eli0eli0eee1:t0:1:y1:ee",
	} {
		f.Add([]byte(s))
	}
	f.Fuzz(func(t *testing.T, data []byte) {
		c := &kit.Case{}
		if v := runC15b(BytesCase{Data: data}, c); v != nil {
			t.Fatalf("VIOLATION-CANDIDATE %s: %s", v.Key, v.Msg)
		}
		for _, name := range compactNames {
			if v := runC15c(CompactCase{Decoder: name, Data: data}, c); v != nil {
				t.Fatalf("VIOLATION-CANDIDATE %s: %s", v.Key, v.Msg)
			}
		}
	})
}
