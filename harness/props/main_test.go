package props

import (
	"encoding/json"
	"fmt"
	"os"
	"testing"

	alog "github.com/anacrolix/log"
	"pgregory.net/rapid"

	"verifharness/kit"
)

func TestMain(m *testing.M) {
	// The server logs undecodable datagrams through the global logger; keep stderr for panics.
	alog.Default.Handlers = []alog.Handler{alog.DiscardHandler}
	code := m.Run()
	kit.Flush()
	os.Exit(code)
}

// TestProp runs the sub-property named by VERIF_SUB under rapid. Case count and PRNG seed come from
// the -rapid.checks / -rapid.seed flags set by the driver.
func TestProp(t *testing.T) {
	id := os.Getenv("VERIF_SUB")
	if id == "" {
		t.Skip("VERIF_SUB not set")
	}
	p := kit.Lookup(id)
	if p == nil {
		t.Fatalf("unknown sub-property %q (have %v)", id, kit.IDs())
	}
	rapid.Check(t, func(t *rapid.T) {
		sc := p.Gen(t)
		if v := p.RunCase(sc); v != nil {
			t.Fatalf("VIOLATION-CANDIDATE %s: %s", v.Key, v.Msg)
		}
		if kit.TooManyInconclusive {
			kit.Flush()
			fmt.Println("INCONCLUSIVE-ABORT: most cases could not be decided")
			os.Exit(3)
		}
	})
}

// TestReplay re-runs one saved scenario without the library: VERIF_REPLAY names a file
// {"sub": "...", "scenario": {...}} (a journal entry, a fail record or a committed regression input).
func TestReplay(t *testing.T) {
	path := os.Getenv("VERIF_REPLAY")
	if path == "" {
		t.Skip("VERIF_REPLAY not set")
	}
	b, err := os.ReadFile(path)
	if err != nil {
		t.Fatal(err)
	}
	var rec struct {
		Sub      string          `json:"sub"`
		Scenario json.RawMessage `json:"scenario"`
		Repeat   int             `json:"repeat"`
	}
	if err := json.Unmarshal(b, &rec); err != nil {
		t.Fatal(err)
	}
	p := kit.Lookup(rec.Sub)
	if p == nil {
		t.Fatalf("unknown sub-property %q", rec.Sub)
	}
	sc, err := p.Decode(rec.Scenario)
	if err != nil {
		t.Fatalf("decoding scenario: %v", err)
	}
	n := rec.Repeat
	if n < 1 {
		n = 1
	}
	for i := 0; i < n; i++ {
		if v := p.RunCase(sc); v != nil {
			t.Fatalf("VIOLATION-CANDIDATE %s: %s", v.Key, v.Msg)
		}
	}
}
