package props

// C16 — Announce hands each node back its own token, and always finishes.

import (
	"fmt"
	"net"
	"sort"
	"sync"
	"time"

	"pgregory.net/rapid"

	dht "github.com/anacrolix/dht/v2"

	"verifharness/kit"
	"verifharness/refmodel"
	"verifharness/simnet"
)

type C16Node struct {
	IDCpl  int
	IDTail kit.Hex
	// Reply: token | token | empty-token | no-token | int-token | error | silent
	Reply  string
	Values int // number of peers it returns in `values`
	Lists  []int
	// Alias (parallel to Lists): 0 = the contact is named under its own ID; k > 0 = under another ID
	// (its own with the last byte xor k), so that one address is advertised under several IDs
	Alias []int
	// Lie: answers with another ID than the one it is advertised under
	Lie bool
	// AnnReply: how it answers the announce_peer it may receive: ok | error | silent
	AnnReply string
	// OwnID: answers under the announcing node's own ID
	OwnID bool
}

type C16Sc struct {
	InfoHash kit.Hex
	Nodes    []C16Node
	Seeds    []int
	Port     int
	Implied  bool
	Mode     string // announce | noannounce
	Scrape   bool
	// Stop: none | close | stoptraversing, injected before the reply to the StopAfter-th get_peers
	Stop      string
	StopAfter int
	// QuiescentStop: none | close | stoptraversing - the consumer stops reading after PauseAfter
	// deliveries; once the node is quiescent (every issued query has fully returned and up to Alpha
	// responses are waiting to be taken from the peers channel) the stop is applied, then the consumer
	// resumes. No reply can race this stop, so exactly-once delivery is asserted.
	QuiescentStop string
	PauseAfter    int
	// LoopLast: the lookup's run loop is scheduled last on every pass (see runLoopLast)
	LoopLast bool
	// CloseAtAnnounce: the announce is closed while an announce_peer to a node that will never answer it is
	// outstanding (that query is given a one-hour virtual resend delay, so only the Close can end it)
	CloseAtAnnounce bool
	// Mapped: the simulated nodes are known by the 16-byte (v4-mapped) form of their IPv4 addresses and
	// name each other in nodes6 in that form, as dual-stack peers do
	Mapped bool
	// Security: BEP 42 is enforced. Nodes are advertised under IDs valid for their addresses; a node that
	// lies answers under an ID that is not - it is heard (delivered on the peers channel) but cannot be a
	// member of the closest set
	Security bool
}

func genC16(t *rapid.T) C16Sc {
	sc := C16Sc{InfoHash: genBytesN(t, 20, "infohash"), Port: genPort(t, "port"), Implied: rapid.Bool().Draw(t, "implied"), Scrape: rapid.Bool().Draw(t, "scrape")}
	if arr20(sc.InfoHash) == ([20]byte{}) {
		sc.InfoHash[0] = 1 // the wire format omits an all-zero info_hash; shrinking tends to produce it
	}
	sc.Mode = rapid.SampledFrom([]string{"announce", "announce", "announce", "noannounce"}).Draw(t, "mode")
	if sc.Implied && rapid.Bool().Draw(t, "port0") {
		sc.Port = 0
	}
	n := rapid.IntRange(1, deep(t, 40)).Draw(t, "nnodes")
	for i := 0; i < n; i++ {
		nd := C16Node{IDCpl: rapid.IntRange(0, 20).Draw(t, "n.cpl"), IDTail: genBytesN(t, 20, "n.tail"),
			Reply: rapid.SampledFrom([]string{"token", "token", "token", "token", "token", "empty-token", "no-token", "int-token", "error", "silent"}).Draw(t, "n.reply"),
			Lie:   rapid.IntRange(0, 7).Draw(t, "n.lie") == 0, AnnReply: pick(t, "n.annreply", "ok", "ok", "ok", "ok", "error", "silent")}
		nd.OwnID = uniformInt(t, 16, "n.ownid") == 0
		if rapid.IntRange(0, 2).Draw(t, "n.hasvalues") == 0 {
			nd.Values = rapid.IntRange(1, 5).Draw(t, "n.values")
		}
		nl := rapid.IntRange(0, 5).Draw(t, "n.nlists")
		for j := 0; j < nl; j++ {
			nd.Lists = append(nd.Lists, rapid.IntRange(0, n-1).Draw(t, "n.list"))
			nd.Alias = append(nd.Alias, []int{0, 0, 0, 1, 2}[uniformInt(t, 5, "n.alias")])
		}
		sc.Nodes = append(sc.Nodes, nd)
	}
	ns := rapid.IntRange(1, min(n, 5)).Draw(t, "nseeds")
	for i := 0; i < ns; i++ {
		sc.Seeds = append(sc.Seeds, rapid.IntRange(0, n-1).Draw(t, "seed"))
	}
	sc.Stop = pick(t, "stop", "none", "none", "none", "none", "close", "stoptraversing")
	sc.StopAfter = 1 + uniformInt(t, 12, "stopafter")
	sc.QuiescentStop = "none"
	if sc.Stop == "none" {
		sc.QuiescentStop = pick(t, "qstop", "none", "none", "close", "stoptraversing")
		sc.PauseAfter = uniformInt(t, 8, "pauseafter")
	}
	sc.LoopLast = uniformInt(t, 4, "looplast") == 0
	sc.CloseAtAnnounce = sc.Stop == "none" && sc.QuiescentStop == "none" && uniformInt(t, 3, "closeatannounce") == 0
	sc.Mapped = uniformInt(t, 4, "mapped") == 0
	sc.Security = uniformInt(t, 4, "security") == 0
	return sc
}

func c16Addr(i int) *net.UDPAddr {
	return &net.UDPAddr{IP: net.IP{31, 2, byte(i / 200), byte(1 + i%200)}, Port: 4000 + i}
}

type c16Resp struct {
	node   int
	addr   string
	id     [20]byte
	token  *string
	values []string
	// the get_peers query it answered was the n-th on the wire
	order int
}

func runC16(sc C16Sc, c *kit.Case) *kit.Violation {
	ih := arr20(sc.InfoHash)
	var seeds []*net.UDPAddr
	for _, s := range sc.Seeds {
		a := c16Addr(s)
		if sc.Mapped {
			a.IP = a.IP.To16()
		}
		seeds = append(seeds, a)
	}
	if sc.Mapped {
		c.Label("v4-mapped-nodes")
	}
	sv := newSrv(SrvOpts{NodeID: [20]byte{0xc1, 6}, Starting: seeds, Security: sc.Security})
	if sc.Security {
		c.Label("security-enforced")
	}
	insecure := func(id [20]byte, ip net.IP) bool {
		return sc.Security && !refmodel.Bep42Exempt(ip) && !refmodel.Bep42Match(id, ip)
	}
	defer sv.Close()
	if sc.LoopLast {
		c.Label("run-loop-always-last")
		defer runLoopLast(sv)()
	}
	net1 := newSimNet(sv)
	ids := make([][20]byte, len(sc.Nodes))
	answerID := make([][20]byte, len(sc.Nodes))
	for i, nd := range sc.Nodes {
		ids[i] = refmodel.WithPrefix(ih, nd.IDCpl, arr20(nd.IDTail))
		answerID[i] = ids[i]
		if nd.Lie {
			answerID[i] = refmodel.WithPrefix(ih, (nd.IDCpl+7)%21, arr20(nd.IDTail))
		}
		if sc.Security {
			// valid IDs for everybody; the liar's answer ID is (almost surely) not valid for its address
			ids[i] = refmodel.Bep42Secure(ids[i], c16Addr(i).IP)
			if !nd.Lie {
				answerID[i] = ids[i]
			}
		}
		if nd.OwnID {
			answerID[i] = sv.ID
			c.Label("responder-claims-our-id")
		}
	}
	var mu sync.Mutex
	heldG := map[int64]bool{} // sender goroutines whose query waits a virtual hour although nobody answers
	sv.C.DelayHook = func(gid int64, matched bool) time.Duration {
		mu.Lock()
		h := heldG[gid]
		mu.Unlock()
		if h || matched {
			return time.Hour
		}
		return 0
	}
	var responses []c16Resp // get_peers responses the harness delivered that complete their query
	getPeersSeen := 0
	var ann *dht.Announce
	annReady := make(chan struct{})
	stopDone := false
	var violInHandler *kit.Violation
	consumerDone := make(chan struct{}) // closed when the consumer has seen the peers channel closed
	for i, nd := range sc.Nodes {
		i, nd := i, nd
		addr := c16Addr(i)
		net1.Add(&SimPeer{Addr: addr, ID: ids[i], Handle: func(q SimQuery) []SimReply {
			t := []byte(q.T)
			switch q.Method {
			case "get_peers":
				<-annReady
				mu.Lock()
				getPeersSeen++
				seen := getPeersSeen
				if runaway := 30*len(sc.Nodes) + 100; seen > runaway {
					// a lookup over a finite network asks every address a bounded number of times
					if violInHandler == nil {
						violInHandler = kit.Violatef("C16:announce-never-finished", "the traversal keeps querying: %d get_peers datagrams so far in a network of %d nodes (the last to %v)", seen, len(sc.Nodes), addr)
						simnet.Go(func() { ann.Close() })
					}
					mu.Unlock()
					return nil
				}
				doStop := sc.Stop != "none" && !stopDone && seen == sc.StopAfter
				if doStop {
					stopDone = true
				}
				mu.Unlock()
				if a, ok := q.Arg("info_hash"); !ok || a.S != string(ih[:]) {
					mu.Lock()
					violInHandler = kit.Violatef("C16:get-peers-wrong-infohash", "get_peers to %v carries info_hash %x, announcing %x", addr, a.S, ih[:])
					mu.Unlock()
				}
				if s, ok := q.Arg("scrape"); sc.Scrape != (ok && s.I == 1) {
					mu.Lock()
					violInHandler = kit.Violatef("C16:scrape-flag", "get_peers to %v: scrape flag present=%v, configured %v", addr, ok, sc.Scrape)
					mu.Unlock()
				}
				if doStop {
					if sc.Stop == "close" {
						ann.Close()
					} else {
						ann.StopTraversing()
					}
				}
				var contacts []SimContact
				for li, l := range nd.Lists {
					id := ids[l]
					if li < len(nd.Alias) && nd.Alias[li] != 0 {
						id[19] ^= byte(nd.Alias[li])
					}
					contacts = append(contacts, SimContact{id, c16Addr(l)})
				}
				var tok *string
				switch nd.Reply {
				case "silent":
					return nil
				case "error":
					return []SimReply{{Data: mkError(t, 201, "no")}}
				case "token":
					s := fmt.Sprintf("tok-%d-%s", i, addr)
					tok = &s
				case "empty-token":
					s := ""
					tok = &s
				}
				r := stdReturn(answerID[i], contacts, tok)
				if sc.Mapped {
					var b []byte
					for _, ct := range contacts {
						b = append(b, ct.ID[:]...)
						b = append(b, ct.Addr.IP.To16()...)
						b = append(b, byte(ct.Addr.Port>>8), byte(ct.Addr.Port))
					}
					r = r.Del("nodes")
					if len(b) > 0 {
						r = r.Set("nodes6", bstr(string(b)))
					}
				}
				if nd.Reply == "int-token" {
					r = r.Set("token", bint(int64(i)))
				}
				var vals []string
				if nd.Values > 0 {
					var l []BV
					for k := 0; k < nd.Values; k++ {
						v := string([]byte{50, byte(i), byte(k), 1, byte(k), 80})
						vals = append(vals, v)
						l = append(l, bstr(v))
					}
					r = r.Set("values", BV{Kind: 'l', L: l})
				}
				if nd.Reply != "int-token" { // a non-string token makes the reply undecodable: not a response
					mu.Lock()
					responses = append(responses, c16Resp{node: i, addr: addr.String(), id: answerID[i], token: tok, values: vals, order: seen})
					mu.Unlock()
				}
				return []SimReply{{Data: mkResponse(t, r)}}
			case "announce_peer":
				// this exchange is still in progress: the peers channel must not be closed under it
				select {
				case <-consumerDone:
					mu.Lock()
					violInHandler = kit.Violatef("C16:closed-before-announces-done", "the peers channel was closed while the announce_peer to %v had not been answered yet", addr)
					mu.Unlock()
				case <-time.After(time.Millisecond):
				}
				switch nd.AnnReply {
				case "error":
					return []SimReply{{Data: mkError(t, 203, "announce refused")}}
				case "silent":
					mu.Lock()
					doClose := sc.CloseAtAnnounce && !stopDone
					if doClose {
						stopDone = true
						heldG[q.G] = true
					}
					mu.Unlock()
					if doClose {
						c.Label("close-while-announce-peer-outstanding")
						simnet.Go(func() { ann.Close() })
					}
					return nil
				}
				return []SimReply{{Data: mkResponse(t, stdReturn(answerID[i], nil, nil))}}
			}
			return nil
		}})
	}
	var opts []dht.AnnounceOpt
	if sc.Scrape {
		opts = append(opts, dht.Scrape())
	}
	var err error
	if sc.Mode == "announce" {
		ann, err = sv.S.Announce(ih, sc.Port, sc.Implied, opts...)
	} else {
		ann, err = sv.S.AnnounceTraversal(ih, opts...)
	}
	if err != nil {
		close(annReady)
		return kit.Violatef("C16:announce-failed-to-start", "Announce with %d starting nodes returned %v", len(seeds), err)
	}
	announcing := sc.Mode == "announce" && (sc.Port != 0 || sc.Implied)
	close(annReady)
	// consumer keeps reading
	type got struct {
		addr   string
		id     [20]byte
		values []string
	}
	var received []got
	paused, resume := make(chan struct{}), make(chan struct{})
	go func() {
		defer close(consumerDone)
		n := 0
		for {
			if sc.QuiescentStop != "none" && n == sc.PauseAfter {
				n++
				close(paused)
				<-resume
				continue
			}
			pv, ok := <-ann.Peers
			if !ok {
				return
			}
			n++
			g := got{addr: pv.NodeInfo.Addr.String(), id: pv.NodeInfo.ID}
			for _, p := range pv.Peers {
				b, _ := p.MarshalBinary()
				g.values = append(g.values, string(b))
			}
			received = append(received, g)
		}
	}()
	quiescentStopDone := false
	pausedReached := false
	if sc.QuiescentStop != "none" {
		select {
		case <-paused:
			pausedReached = true
		case <-consumerDone: // the traversal ended before the consumer got to its pause
		case <-time.After(20 * time.Second):
			if ok, who := sv.C.AllBlocked(); !ok {
				c.Inconclusive = "announce still running after 20 s with runnable goroutines: " + who
				return nil
			}
			return kit.Violatef("C16:announce-never-finished", "the traversal neither delivered %d responses nor closed the peers channel although every module goroutine is blocked", sc.PauseAfter)
		}
	}
	if pausedReached {
		// everything the traversal can do without its consumer has been done when the node is quiescent
		if err := sv.C.Quiesce(barrierTimeout); err != nil {
			close(resume)
			c.Inconclusive = err.Error()
			return nil
		}
		select {
		case <-ann.Finished():
			// the traversal had already ended: nothing to stop
		default:
			if sc.QuiescentStop == "close" {
				ann.Close()
			} else {
				ann.StopTraversing()
			}
			quiescentStopDone = true
		}
		close(resume)
	}
	select {
	case <-consumerDone:
	case <-time.After(20 * time.Second):
		mu.Lock()
		hv := violInHandler
		mu.Unlock()
		if hv != nil {
			return hv
		}
		if ok, who := sv.C.AllBlocked(); !ok {
			c.Inconclusive = "announce still running after 20 s with runnable goroutines: " + who
			return nil
		}
		return kit.Violatef("C16:announce-never-finished", "the peers channel was not closed although every module goroutine is blocked (stop=%s)", sc.Stop)
	}
	select {
	case <-ann.Finished():
	case <-time.After(2 * time.Second):
		return kit.Violatef("C16:finished-not-signalled", "the peers channel is closed but Finished() has not fired")
	}
	outAtClose := sv.C.NumOut()
	st, sv1, ok := sv.stats(c, "C16", "after the announce finished")
	if !ok {
		return sv1
	}
	if n := st.OutstandingTransactions; n != 0 {
		return kit.Violatef("C16:closed-before-announces-done", "the peers channel was closed while %d transactions were still outstanding", n)
	}
	if !sv.barrier(c) {
		return nil
	}
	if n := sv.C.NumOut(); n != outAtClose {
		return kit.Violatef("C16:closed-before-announces-done", "a datagram was sent after the peers channel had been closed: %s", outsFrom(sv.C, outAtClose)[0].Describe())
	}
	mu.Lock()
	defer mu.Unlock()
	if violInHandler != nil {
		return violInHandler
	}
	// delivery on the peers channel
	respCount := map[string]int{}
	for _, r := range responses {
		respCount[fmt.Sprintf("%s|%x|%q", r.addr, r.id[:], r.values)]++
	}
	gotCount := map[string]int{}
	for _, g := range received {
		gotCount[fmt.Sprintf("%s|%x|%q", g.addr, g.id[:], g.values)]++
	}
	var gkeys []string
	for k := range gotCount {
		gkeys = append(gkeys, k)
	}
	sort.Strings(gkeys)
	for _, k := range gkeys {
		if gotCount[k] > respCount[k] {
			return kit.Violatef("C16:peers-fabricated-or-duplicated", "the peers channel delivered %q %d time(s); the simulated nodes sent such a get_peers response %d time(s)", k, gotCount[k], respCount[k])
		}
	}
	if quiescentStopDone {
		c.Label("quiescent-" + sc.QuiescentStop)
	}
	if sc.Stop == "none" || !stopDone {
		var rkeys []string
		for k := range respCount {
			rkeys = append(rkeys, k)
		}
		sort.Strings(rkeys)
		for _, k := range rkeys {
			if gotCount[k] != respCount[k] {
				return kit.Violatef("C16:response-not-delivered", "get_peers response %q was received %d time(s) and delivered %d time(s) on the peers channel although the consumer kept reading", k, respCount[k], gotCount[k])
			}
		}
	}
	// the responders the lookup counts = what it delivered on the peers channel
	type tb struct {
		addr  string
		id    [20]byte
		token string
	}
	var tokenBearers []tb
	tokenOf := map[string]*string{}
	idOf := map[string][20]byte{}
	for _, r := range responses {
		tokenOf[r.addr] = r.token
		idOf[r.addr] = r.id
	}
	seenAddr := map[string]bool{}
	for _, g := range received {
		if seenAddr[g.addr] {
			continue
		}
		seenAddr[g.addr] = true
		if tk := tokenOf[g.addr]; tk != nil {
			if ua, err := net.ResolveUDPAddr("udp", g.addr); err == nil && insecure(g.id, ua.IP) {
				continue // fails the lookup's node filter: heard, but not a candidate for the closest set
			}
			tokenBearers = append(tokenBearers, tb{g.addr, g.id, *tk})
		}
	}
	// announce_peer datagrams
	dests := map[string]bool{}
	for _, q := range net1.Queries() {
		if q.Method != "announce_peer" {
			continue
		}
		to := q.To.String()
		what := fmt.Sprintf("announce_peer to %v", q.To)
		if !announcing {
			return kit.Violatef("C16:announce-although-disabled", "%s although announcing is not enabled (mode %s port %d implied %v)", what, sc.Mode, sc.Port, sc.Implied)
		}
		if dests[to] {
			return kit.Violatef("C16:announced-twice", "%s sent twice", what)
		}
		dests[to] = true
		tk, responded := tokenOf[to]
		if !responded || tk == nil || !seenAddr[to] {
			return kit.Violatef("C16:announce-to-non-responder", "%s, which did not answer get_peers with a token in this traversal", what)
		}
		if insecure(idOf[to], q.To.IP) {
			return kit.Violatef("C16:announce-outside-closest-set", "%s, which answered under the ID %x that is not valid for its address (BEP 42 is enforced): it cannot be a member of the lookup's closest set", what, idOf[to])
		}
		wt, hasTok := q.Arg("token")
		if (hasTok && wt.S != *tk) || (!hasTok && *tk != "") {
			return kit.Violatef("C16:wrong-token", "%s carries token %q (present=%v); that node issued %q", what, wt.S, hasTok, *tk)
		}
		if a, ok := q.Arg("info_hash"); !ok || a.S != string(ih[:]) {
			return kit.Violatef("C16:wrong-infohash", "%s carries info_hash %x, announcing %x", what, a.S, ih[:])
		}
		ip, hasIP := q.Arg("implied_port")
		pt, hasPort := q.Arg("port")
		if sc.Implied {
			if !hasIP || ip.I != 1 {
				return kit.Violatef("C16:wrong-port-options", "%s lacks implied_port=1 (configured implied port)", what)
			}
		} else {
			if hasIP && ip.I != 0 {
				return kit.Violatef("C16:wrong-port-options", "%s carries implied_port although a port was configured", what)
			}
			if !hasPort || pt.I != int64(sc.Port) {
				return kit.Violatef("C16:wrong-port-options", "%s carries port %d (present=%v), configured %d", what, pt.I, hasPort, sc.Port)
			}
		}
		// a member of the final closest set: fewer than 8 token-bearing responders are strictly closer
		closer := 0
		for _, o := range tokenBearers {
			if o.addr != to && refmodel.DistCmp(o.id, idOf[to], ih) < 0 {
				closer++
			}
		}
		if closer >= 8 {
			tid := idOf[to]
			return kit.Violatef("C16:announce-outside-closest-set", "%s (id %x): %d token-bearing responders are strictly closer to the infohash, so it is not among the 8 closest", what, tid[:4], closer)
		}
	}
	if len(dests) > 8 {
		return kit.Violatef("C16:announce-outside-closest-set", "announce_peer was sent to %d nodes", len(dests))
	}
	distinctTokens := map[string]bool{}
	for _, o := range tokenBearers {
		distinctTokens[o.token] = true
	}
	if (len(tokenBearers) >= 9 && len(distinctTokens) >= 9 && announcing) || stopDone || quiescentStopDone {
		c.NonTrivial()
	}
	c.Label(fmt.Sprintf("announces-%d", bucketCount(len(dests))))
	c.Label(fmt.Sprintf("token-bearers-%d", bucketCount(len(tokenBearers))))
	c.Label("stop-" + sc.Stop)
	if stopDone {
		c.Label("stop-injected")
	}
	return nil
}

func init() {
	kit.Register("C16a",
		"rapid: Server.Announce / AnnounceTraversal over 1..40 simulated nodes with IDs structured around the infohash (some answering under another ID than advertised), each answering get_peers with a distinct token / an empty token / no token / a non-string token / an error / nothing, with 0..5 `values`, and naming 0..5 neighbours; contacts named under aliased IDs, nodes known by the v4-mapped form of their address, responders claiming the announcing node's own ID, BEP 42 enforced with liars answering under invalid IDs (heard, never members of the closest set); options port / implied port (also with port 0) / scrape / no announce; the lookup's run loop scheduled last on every pass; Close while an announce_peer that will never be answered is outstanding; Close or StopTraversing injected before the reply to the n-th get_peers (racing the replies), or applied at a quiescent point while the consumer has paused after n deliveries (racing nothing), or never; the consumer reads the peers channel to the end. Oracle: every announce_peer on the wire goes to a node that answered get_peers with a token in this traversal and was delivered on the peers channel, carries exactly that node's token, the infohash and the configured port / implied_port, at most once per node, to at most 8 nodes, each of which has fewer than 8 token-bearing responders strictly closer to the infohash; none when announcing is disabled; every get_peers response is delivered exactly once on the peers channel with the responder's address, ID and values (also when the stop was applied at a quiescent point; at most once, and nothing fabricated, when the stop raced the replies); the channel is closed, Finished() fires, no transaction is outstanding and nothing is sent afterwards. Non-trivial: >= 9 token-bearing responders with distinct tokens, or a stop injected mid-traversal.",
		[]string{"with Close/StopTraversing injected, a reply racing the cancellation may be dropped by the library: exactly-once delivery is asserted only when no stop was injected", "an empty-string token may be echoed as an absent token (the wire type omits empty strings)"},
		genC16, func(sc C16Sc, c *kit.Case) *kit.Violation {
			// a lookup that ends early because of the stale stall report (known finding F10 of C03) can lose a
			// reply to the cancellation race: keep this verdict only if it shows on every one of three executions
			return kit.Confirm(runC16(sc, c), 3, []string{"C16:response-not-delivered"}, func() *kit.Violation { return runC16(sc, &kit.Case{}) })
		})
}
