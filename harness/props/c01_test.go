package props

// C01 — No inbound datagram can crash, wedge or silence the node.

import (
	"bytes"
	"context"
	"fmt"
	"net"
	"sync"
	"sync/atomic"
	"testing"
	"time"

	"github.com/anacrolix/torrent/bencode"
	"pgregory.net/rapid"

	dht "github.com/anacrolix/dht/v2"
	"github.com/anacrolix/dht/v2/bep44"
	"github.com/anacrolix/dht/v2/exts/getput"
	"github.com/anacrolix/dht/v2/krpc"

	"verifharness/kit"
	"verifharness/refmodel"
	"verifharness/simnet"
)

type C01Cfg struct {
	PeerStore bool
	Security  bool
	Passive   bool
	Hook      string
	Dual      bool
	// Prelude: number of simulated peers that get into the table (answered pings), peers announced and items stored
	Prelude int
	// ShortExp: stored items expire after 1 ms instead of 2 h
	ShortExp bool
}

// C01Field says how one response field is presented: absent | valid | bad (wrong type / length / garbage)
type C01Tmpl struct {
	Y      string // r | e | x | "" (absent)
	Fields map[string]string
	EForm  string // list | string | empty-list | garbage | absent
	Extra  kit.Hex
}

type C01Dgram struct {
	Src  Src
	Kind string // raw | wire | reply | stored (a well-formed get / put for an item the prelude stored)
	Data kit.Hex
	// reply: answer the K-th most recent outgoing query (mod number seen) from its destination ...
	K int
	// ... or, FromOther, with its transaction ID from another address
	FromOther bool
	Tmpl      C01Tmpl
}

type C01Sc struct {
	Cfg  C01Cfg
	Op   string // none | ping | bootstrap | announce | announce-implied | scrape | traverse | get | get-mutable | put | announce-close (nobody reads the peers channel; the announce is closed after the datagram sequence) | tm (Server.TableMaintainer runs in the background)
	Msgs []C01Dgram
}

var c01RespFields = []string{"id", "nodes", "nodes6", "token", "values", "v", "k", "sig", "seq", "BFsd", "BFpe", "samples", "interval", "num", "ip"}

func genC01Tmpl(t *rapid.T) C01Tmpl {
	tm := C01Tmpl{Y: pick(t, "y", "r", "r", "r", "r", "r", "e", "x", ""), Fields: map[string]string{}, EForm: pick(t, "eform", "absent", "absent", "absent", "list", "string", "empty-list", "garbage")}
	// two styles: mostly well-formed replies with one or two twists (they get past the decoder and
	// deep into the consumers), and chaotic ones
	chaotic := uniformInt(t, 3, "chaotic") == 0
	for _, f := range c01RespFields {
		if chaotic {
			tm.Fields[f] = pick(t, "f."+f, "absent", "valid", "valid", "bad")
		} else {
			tm.Fields[f] = pick(t, "f."+f, "absent", "absent", "absent", "absent", "valid", "valid", "valid", "valid", "valid", "bad")
		}
	}
	if !chaotic {
		tm.Y, tm.EForm = "r", "absent"
		if tm.Fields["id"] == "absent" {
			tm.Fields["id"] = "valid"
		}
	}
	// neighbour lists with a twist: one address under several IDs, the queried address itself, unroutable entries
	switch uniformInt(t, 5, "f.nodes.special") {
	case 0:
		tm.Fields["nodes"] = "dup-addr"
	case 1:
		tm.Fields["nodes"] = "self-addr"
	case 2:
		tm.Fields["nodes"] = "odd-addrs"
	}
	// special IDs: the node's own, all-zero
	switch uniformInt(t, 6, "f.id.special") {
	case 0:
		tm.Fields["id"] = "own"
	case 1:
		tm.Fields["id"] = "zero"
	}
	if uniformInt(t, 8, "extra") == 0 {
		tm.Extra = genBytes(t, 1, 20, "extrabytes")
	}
	return tm
}

func genC01(t *rapid.T) C01Sc {
	var sc C01Sc
	sc.Cfg = C01Cfg{PeerStore: rapid.Bool().Draw(t, "peerstore"), Security: uniformInt(t, 4, "security") == 0, Dual: rapid.Bool().Draw(t, "dual"), Prelude: uniformInt(t, 6, "prelude"), ShortExp: uniformInt(t, 3, "shortexp") == 0}
	switch uniformInt(t, 8, "mode") {
	case 0:
		sc.Cfg.Passive = true
	case 1:
		sc.Cfg.Hook = "veto"
	case 2:
		sc.Cfg.Hook = "allow"
	}
	sc.Op = pick(t, "op", "none", "none", "ping", "bootstrap", "announce", "announce-implied", "scrape", "traverse", "get", "get-mutable", "put", "put", "announce-close", "tm", "tm")
	n := 1 + uniformInt(t, deep(t, 40), "nmsgs")
	for i := 0; i < n; i++ {
		d := C01Dgram{Src: genSrc(t, sc.Cfg.Dual, "src")}
		roll := uniformInt(t, 10, "kind")
		if sc.Op == "tm" && roll >= 7 {
			// a burst of well-formed pings from fresh addresses whose IDs all fall into the bucket the table
			// maintainer is refreshing at that moment
			d.Kind = "fill"
			d.K = uniformInt(t, 1<<16, "fillseed")
		} else if sc.Op != "none" && roll < 5 {
			d.Kind = "reply"
			d.K = uniformInt(t, 8, "k")
			d.FromOther = uniformInt(t, 8, "fromother") == 0
			d.Tmpl = genC01Tmpl(t)
		} else if roll == 5 && sc.Cfg.Prelude > 0 {
			d.Kind = "stored"
			d.K = uniformInt(t, 8, "k")
		} else if roll < 7 {
			d.Kind = "raw"
			switch uniformInt(t, 6, "rawkind") {
			case 0:
				d.Data = genBytes(t, 0, 64, "raw")
			case 1:
				d.Data = genBV(t, 3, "bv").Encode(rapid.Bool().Draw(t, "sorted"))
			case 2: // deep nesting
				depth := 1 + uniformInt(t, 3000, "depth")
				d.Data = append(bytes.Repeat([]byte("l"), depth), bytes.Repeat([]byte("e"), depth)...)
			case 3: // dictionary with a huge string
				l := pick(t, "biglen", 1000, 30000, 65000, 65400)
				d.Data = []byte(fmt.Sprintf("d1:t2:aa1:y1:q1:q4:ping1:ad2:id%d:%se", l, string(bytes.Repeat([]byte("x"), l))))
				if rapid.Bool().Draw(t, "closed") {
					d.Data = append(d.Data, 'e')
				}
			case 4: // at and beyond the read buffer
				l := pick(t, "len64k", 65535, 65536, 65537, 70000)
				b := bytes.Repeat([]byte("0"), l)
				b[0] = 'd'
				d.Data = b
			default:
				d.Data = mutateBytes(t, []byte("d1:ad2:id20:abcdefghij01234567899:info_hash20:mnopqrstuvwxyz123456e1:q9:get_peers1:t2:aa1:y1:qe"))
			}
		} else {
			d.Kind = "wire"
			switch uniformInt(t, 3, "wirekind") {
			case 0:
				m := genMsgSpec(t).Build()
				b, err := bencode.Marshal(m)
				if err != nil {
					t.Fatalf("generator produced unencodable message: %v", err)
				}
				d.Data = mutateBytes(t, b)
			case 1:
				d.Data = genWireDict(t).Encode(rapid.Bool().Draw(t, "sorted"))
			default:
				d.Data = mutateBytes(t, genWireDict(t).Encode(true))
			}
		}
		sc.Msgs = append(sc.Msgs, d)
	}
	return sc
}

func c01Node(i int, dual bool) *net.UDPAddr {
	ip := net.IP{81, 1, byte(i / 200), byte(1 + i%200)}
	if dual {
		ip = ip.To16()
	}
	return &net.UDPAddr{IP: ip, Port: 8100 + i}
}

// build turns a reply template into bytes answering transaction t.
func (tm C01Tmpl) build(t string, dual bool, own [20]byte, queried *net.UDPAddr) []byte {
	valid := map[string]BV{
		"id":       bs(bytes.Repeat([]byte{0x5a}, 20)),
		"nodes":    bstr(compactNodes(false, []SimContact{{[20]byte{1, 1}, c01Node(20, false)}, {[20]byte{2, 2}, c01Node(21, false)}, {[20]byte{3}, c01Node(22, false)}})),
		"nodes6":   bstr(string(append(append(bytes.Repeat([]byte{9}, 20), net.ParseIP("2001:db8::99").To16()...), 0x1f, 0x90))),
		"token":    bstr("hostile-token"),
		"values":   refmodel.BList(bstr("\x51\x01\x00\x09\x1f\x90"), bstr(string(append(net.ParseIP("2001:db8::77").To16(), 0, 80)))),
		"v":        bstr("value"),
		"k":        bs(b44Key(31).pub),
		"sig":      bs(bytes.Repeat([]byte{7}, 64)),
		"seq":      bint(3),
		"BFsd":     bs(make([]byte, 256)),
		"BFpe":     bs(make([]byte, 256)),
		"samples":  bs(bytes.Repeat([]byte{4}, 40)),
		"interval": bint(10),
		"num":      bint(2),
		"ip":       bstr("\x51\x01\x00\x01\x1f\x90"),
	}
	bad := map[string]BV{
		"id":       bstr("short"),
		"nodes":    bstr(string(bytes.Repeat([]byte{1}, 27))),
		"nodes6":   bstr(string(bytes.Repeat([]byte{1}, 37))),
		"token":    bint(5),
		"values":   refmodel.BList(bstr("x"), bint(3), refmodel.BList()),
		"v":        refmodel.BDict(BKV{K: "a", V: refmodel.BList(bint(1))}),
		"k":        bstr("not-32-bytes"),
		"sig":      bint(9),
		"seq":      bstr("seq"),
		"BFsd":     bstr("tiny"),
		"BFpe":     bint(1),
		"samples":  bstr(string(bytes.Repeat([]byte{4}, 41))),
		"interval": bstr("x"),
		"num":      refmodel.BList(),
		"ip":       bstr("xyz"),
	}
	var r []BKV
	var top []BKV
	for _, f := range c01RespFields {
		var v BV
		switch tm.Fields[f] {
		case "dup-addr": // one address advertised under three IDs and nothing else
			a := c01Node(25, false)
			v = bstr(compactNodes(false, []SimContact{{[20]byte{1}, a}, {[20]byte{2}, a}, {[20]byte{3}, a}}))
		case "self-addr": // the answering node lists itself under other IDs
			if q4 := queried.IP.To4(); q4 != nil {
				qa := &net.UDPAddr{IP: q4, Port: queried.Port}
				v = bstr(compactNodes(false, []SimContact{{[20]byte{4}, qa}, {[20]byte{5}, qa}}))
			} else {
				continue
			}
		case "odd-addrs": // port 0, first octet 0, broadcast, loopback
			v = bstr(compactNodes(false, []SimContact{{[20]byte{6}, &net.UDPAddr{IP: net.IP{81, 1, 0, 30}, Port: 0}}, {[20]byte{7}, &net.UDPAddr{IP: net.IP{0, 1, 2, 3}, Port: 80}},
				{[20]byte{8}, &net.UDPAddr{IP: net.IP{255, 255, 255, 255}, Port: 80}}, {[20]byte{9}, &net.UDPAddr{IP: net.IP{127, 0, 0, 1}, Port: 4000}}}))
		case "own":
			v = bs(own[:])
		case "zero":
			v = bs(make([]byte, 20))
		case "valid":
			v = valid[f]
		case "bad":
			v = bad[f]
		default:
			continue
		}
		if f == "ip" {
			top = append(top, BKV{K: "ip", V: v})
		} else {
			r = append(r, BKV{K: f, V: v})
		}
	}
	top = append(top, BKV{K: "t", V: bstr(t)})
	if tm.Y != "" {
		top = append(top, BKV{K: "y", V: bstr(tm.Y)})
	}
	if tm.Y != "e" || len(r) > 0 {
		top = append(top, BKV{K: "r", V: BV{Kind: 'd', D: r}})
	}
	switch tm.EForm {
	case "list":
		top = append(top, BKV{K: "e", V: refmodel.BList(bint(201), bstr("hostile"))})
	case "string":
		top = append(top, BKV{K: "e", V: bstr("hostile")})
	case "empty-list":
		top = append(top, BKV{K: "e", V: refmodel.BList()})
	case "garbage":
		top = append(top, BKV{K: "e", V: refmodel.BList(bstr("x"), refmodel.BDict(), bint(-1))})
	}
	b := BV{Kind: 'd', D: top}.Encode(true)
	return append(b, tm.Extra...)
}

func runC01(sc C01Sc, c *kit.Case) *kit.Violation {
	nodeID := [20]byte{0xc0, 1}
	var starting []*net.UDPAddr
	for i := 0; i < 4; i++ {
		starting = append(starting, c01Node(i, sc.Cfg.Dual))
	}
	opts := SrvOpts{NodeID: nodeID, Passive: sc.Cfg.Passive, Hook: sc.Cfg.Hook, PeerStore: sc.Cfg.PeerStore, Security: sc.Cfg.Security, Starting: starting}
	if sc.Cfg.ShortExp {
		opts.Exp = time.Millisecond
	}
	if sc.Cfg.Security {
		opts.PublicIP = net.IP{81, 9, 9, 9}
	}
	sv := newSrv(opts)
	defer sv.Close()
	net1 := newSimNet(sv)
	// while the adversary is active, pending queries wait a bounded real time for its replies; afterwards
	// unanswered queries time out at once
	var adversary atomic.Bool
	adversary.Store(false)
	sv.C.DelayHook = func(gid int64, matched bool) time.Duration {
		if matched {
			return time.Hour
		}
		if adversary.Load() {
			return 25 * time.Millisecond
		}
		return 0
	}
	// prelude: populate the table, the peer store and the item store through genuine exchanges
	silent := sc.Cfg.Passive || sc.Cfg.Hook == "veto"
	type storedItem struct {
		from  *net.UDPAddr
		id    [20]byte
		token string
		encV  string
	}
	var storedItems []storedItem
	for i := 0; i < sc.Cfg.Prelude; i++ {
		a := c01Node(30+i, sc.Cfg.Dual)
		id := [20]byte{0x30, byte(i)}
		net1.Add(&SimPeer{Addr: a, ID: id, Handle: func(q SimQuery) []SimReply {
			return []SimReply{{Data: mkResponse([]byte(q.T), stdReturn(id, nil, nil))}}
		}})
		sv.S.Ping(a)
		if !silent {
			outs, ok := sv.exchange(c, a, mkQuery([]byte("pg"), "get", mkArgs(id, BKV{K: "target", V: bs(make([]byte, 20))})), true)
			if !ok {
				return nil
			}
			if o, found := replyTo(outs, a, []byte("pg")); found {
				if r, ok := o.R(); ok {
					if tk, ok := r.Get("token"); ok {
						sv.exchange(c, a, mkQuery([]byte("pa"), "announce_peer", mkArgs(id, BKV{K: "info_hash", V: bs(make([]byte, 20))}, BKV{K: "port", V: bint(int64(7000 + i))}, BKV{K: "token", V: bstr(tk.S)})), false)
						sv.exchange(c, a, mkQuery([]byte("pp"), "put", mkArgs(id, BKV{K: "v", V: bstr(fmt.Sprintf("item%d", i))}, BKV{K: "seq", V: bint(0)}, BKV{K: "token", V: bstr(tk.S)})), false)
						storedItems = append(storedItems, storedItem{a, id, tk.S, fmt.Sprintf("5:item%d", i)})
					}
				}
			}
		}
	}
	if c.Inconclusive != "" {
		return nil
	}
	// the in-flight operation
	adversary.Store(true)
	opDone := make(chan struct{})
	var opWG sync.WaitGroup
	key := b44Key(31)
	var k32 [32]byte
	copy(k32[:], key.pub)
	ctx, cancelOp := context.WithCancel(context.Background())
	defer cancelOp()
	closeAnnounce := make(chan struct{})
	startOp := func(f func()) {
		opWG.Add(1)
		go func() { defer opWG.Done(); f() }()
	}
	drain := func(a *dht.Announce, err error) {
		if err != nil {
			return
		}
		for range a.Peers {
		}
		<-a.Finished()
	}
	switch sc.Op {
	case "ping":
		startOp(func() {
			for round := 0; round < 3; round++ {
				for _, a := range starting {
					sv.S.Ping(a)
				}
			}
		})
	case "bootstrap":
		startOp(func() { sv.S.Bootstrap() })
	case "announce":
		startOp(func() { drain(sv.S.Announce([20]byte{0xa0, 1}, 6881, false)) })
	case "announce-implied":
		startOp(func() { drain(sv.S.Announce([20]byte{0xa0, 2}, 0, true)) })
	case "scrape":
		startOp(func() { drain(sv.S.Announce([20]byte{0xa0, 3}, 6881, false, dht.Scrape())) })
	case "traverse":
		startOp(func() { drain(sv.S.AnnounceTraversal([20]byte{0xa0, 4})) })
	case "announce-close":
		startOp(func() {
			a, err := sv.S.Announce([20]byte{0xa0, 5}, 6881, false)
			if err != nil {
				return
			}
			<-closeAnnounce // nobody takes the responses meanwhile
			a.Close()
			time.Sleep(10 * time.Millisecond) // whatever Close sets in motion happens with the responses still untaken
			drain(a, nil)
		})
	case "tm":
		simnet.Go(sv.S.TableMaintainer) // runs until the node is closed
	case "get":
		startOp(func() { getput.Get(ctx, bep44.Target{0x9e, 1}, sv.S, nil, nil) })
	case "get-mutable":
		startOp(func() {
			seq := int64(1)
			getput.Get(ctx, bep44.MakeMutableTarget(k32, []byte("salt")), sv.S, &seq, []byte("salt"))
		})
	case "put":
		startOp(func() {
			getput.Put(ctx, krpc.ID(bep44.MakeMutableTarget(k32, nil)), sv.S, nil, func(seq int64) bep44.Put {
				p := bep44.Put{V: "c01", K: &k32, Seq: seq + 1}
				p.Sign(key.priv)
				return p
			})
		})
	}
	go func() { opWG.Wait(); close(opDone) }()
	if sc.Op != "none" {
		// let the operation put its first queries on the wire
		waitFor(200*time.Millisecond, func() bool { return net1.NumQueries() > 0 })
	}
	reachedHandler, matchedLive := false, false
	for i, d := range sc.Msgs {
		src := d.Src.UDP()
		data := []byte(d.Data)
		if d.Kind == "stored" {
			if len(storedItems) == 0 {
				continue
			}
			it := storedItems[d.K%len(storedItems)]
			tgt := refmodel.Bep44ImmutableTarget([]byte(it.encV))
			src = it.from
			if d.K%3 == 2 {
				v, _, _ := refmodel.Parse([]byte(it.encV))
				data = mkQuery([]byte("sp"), "put", mkArgs(it.id, BKV{K: "v", V: v}, BKV{K: "seq", V: bint(0)}, BKV{K: "token", V: bstr(it.token)}))
			} else if d.K%5 == 3 {
				// a correctly tokened announce whose port is outside 1..65535 (stored as it comes, or not at all)
				port := []int64{70000, -1, 65536, 1 << 31, 0, 1 << 40}[d.K%6]
				data = mkQuery([]byte("sa"), "announce_peer", mkArgs(it.id, BKV{K: "info_hash", V: bs(make([]byte, 20))}, BKV{K: "port", V: bint(port)}, BKV{K: "token", V: bstr(it.token)}))
				c.Label("tokened-announce-odd-port")
			} else if d.K%5 == 4 {
				data = mkQuery([]byte("sg"), "get_peers", mkArgs(it.id, BKV{K: "info_hash", V: bs(make([]byte, 20))}))
			} else {
				data = mkQuery([]byte("sg"), "get", mkArgs(it.id, BKV{K: "target", V: bs(tgt[:])}))
			}
			reachedHandler = true
			c.Label("stored-item-get-or-put")
		} else if d.Kind == "fill" {
			// A maintenance pass sleeps for a minute when it is done, so each burst gets a pass of its own: start
			// one, wait until it has a find_node on the wire (its bucket refresh is under way), then fill that bucket.
			before := net1.NumQueries()
			simnet.Go(sv.S.TableMaintainer)
			waitFor(150*time.Millisecond, func() bool {
				qs := net1.Queries()
				return len(qs) > before && qs[len(qs)-1].Method == "find_node"
			})
			bucket := 0
			qs := net1.Queries()
			for j := len(qs) - 1; j >= 0; j-- {
				if tg, ok := qs[j].Arg("target"); ok && qs[j].Method == "find_node" && len(tg.S) == 20 {
					var tid [20]byte
					copy(tid[:], tg.S)
					if tid != nodeID {
						bucket = refmodel.CommonPrefixLen(tid, nodeID)
						break
					}
				}
			}
			for j := 0; j < 10; j++ {
				var tail [20]byte
				tail[10], tail[11], tail[12], tail[19] = byte(d.K>>8), byte(d.K), byte(i), byte(j)
				id := refmodel.WithPrefix(nodeID, bucket, tail)
				from := &net.UDPAddr{IP: net.IP{77, byte(1 + i%200), byte(d.K), byte(1 + j)}, Port: 7700 + j}
				if sc.Cfg.Dual {
					from.IP = from.IP.To16()
				}
				sv.C.Inject(from, mkQuery([]byte(fmt.Sprintf("fl%d", j)), "ping", mkArgs(id)))
			}
			reachedHandler = true
			c.Label("bucket-filling-burst")
			continue
		} else if d.Kind == "reply" {
			qs := net1.Queries()
			if len(qs) == 0 {
				continue
			}
			q := qs[len(qs)-1-d.K%len(qs)]
			data = d.Tmpl.build(q.T, sc.Cfg.Dual, nodeID, q.To)
			src = q.To
			if d.FromOther {
				src = d.Src.UDP()
			} else {
				matchedLive = true
			}
			c.Label("reply-y-" + d.Tmpl.Y)
		} else {
			if v, n, err := refmodel.Parse(data); err == nil && v.Kind == 'd' && n <= len(data) {
				if y, _ := v.Get("y"); y.S == "q" {
					if q, ok := v.Get("q"); ok && q.Kind == 's' {
						reachedHandler = true
						c.Label("query-" + q.S)
					}
				}
			}
			if len(data) >= 60000 {
				c.Label("datagram->=60KiB")
			}
		}
		sv.C.Inject(src, data)
		if i%4 == 3 {
			if v := sv.barrierOrWedged(c, "C01", fmt.Sprintf("after datagram %d", i)); v != nil || c.Inconclusive != "" {
				return v
			}
		}
	}
	// the adversary stops answering: the operation must come to an end on its own
	close(closeAnnounce)
	adversary.Store(false)
	select {
	case <-opDone:
	case <-time.After(30 * time.Second):
		if ok, who := sv.C.AllBlocked(); !ok {
			c.Inconclusive = "in-flight operation still running after 30 s with runnable goroutines: " + who
			return nil
		}
		return kit.Violatef("C01:operation-wedged", "the in-flight %s did not return after the hostile replies stopped, although every module goroutine is blocked", sc.Op)
	}
	if v := sv.barrierOrWedged(c, "C01", "after the datagram sequence"); v != nil || c.Inconclusive != "" {
		return v
	}
	// the public API still returns
	apiDone := make(chan struct{})
	go func() {
		defer close(apiDone)
		sv.S.Stats()
		sv.S.NumNodes()
		sv.S.Nodes()
		var buf bytes.Buffer
		sv.S.WriteStatus(&buf)
	}()
	select {
	case <-apiDone:
	case <-time.After(20 * time.Second):
		if ok, who := sv.C.AllBlocked(); !ok {
			c.Inconclusive = "API calls still running after 20 s with runnable goroutines: " + who
			return nil
		}
		return kit.Violatef("C01:api-wedged", "Stats/NumNodes/Nodes/WriteStatus did not return after the datagram sequence, although every module goroutine is blocked (a lock was left held)")
	}
	// the node still serves: a well-formed ping from a never-used address
	fresh := &net.UDPAddr{IP: net.IP{82, 82, 82, 82}, Port: 8282}
	if sc.Cfg.Dual {
		fresh.IP = fresh.IP.To16()
		if len(sc.Msgs)%2 == 1 {
			fresh.IP = net.ParseIP("2001:db8:82:82::8282").To16() // a global IPv6 peer
		}
	}
	outs, ok := sv.exchange(c, fresh, mkQuery([]byte("fresh-ping"), "ping", mkArgs([20]byte{0xf0})), !silent)
	if !ok {
		return nil
	}
	o, found := replyTo(outs, fresh, []byte("fresh-ping"))
	if silent {
		if found {
			return kit.Violatef("C01:passive-node-replied", "the passive/vetoing node answered the probe ping")
		}
	} else {
		if !found || o.Y != "r" {
			return kit.Violatef("C01:node-stopped-serving", "after the datagram sequence a well-formed ping from a fresh address got %d datagrams and no response", len(outs))
		}
		r, _ := o.R()
		if id, ok := r.Get("id"); !ok || id.S != string(sv.ID[:]) {
			return kit.Violatef("C01:node-stopped-serving", "the probe ping was answered without the node's ID: %s", o.Describe())
		}
	}
	if reachedHandler || matchedLive {
		c.NonTrivial()
	}
	c.Label("op-" + sc.Op)
	if matchedLive {
		c.Label("hostile-reply-to-live-query")
	}
	return nil
}

// FuzzC01Datagram: byte-level coverage-guided target (thorough tier). One richly populated node per
// iteration; the datagram is delivered verbatim from a fresh address, and - when it parses as a
// dictionary - also as the reply to a live query of an in-flight bootstrap/announce/get, with its
// transaction ID replaced by the live one.
func FuzzC01Datagram(f *testing.F) {
	seeds := []string{
		"d1:ad2:id20:abcdefghij0123456789e1:q4:ping1:t2:aa1:y1:qe",
		"d1:ad2:id20:abcdefghij01234567896:target20:mnopqrstuvwxyz123456e1:q9:find_node1:t2:aa1:y1:qe",
		"d1:ad2:id20:abcdefghij01234567899:info_hash20:mnopqrstuvwxyz123456e1:q9:get_peers1:t2:aa1:y1:qe",
		"d1:ad2:id20:abcdefghij01234567899:info_hash20:mnopqrstuvwxyz1234564:porti6881e5:token8:aoeusnthe1:q13:announce_peer1:t2:aa1:y1:qe",
		"d1:q13:announce_peer1:t2:aa1:y1:qe",
		"d1:q3:put1:t2:aa1:y1:qe",
		"d1:ad2:id20:abcdefghij01234567896:target20:mnopqrstuvwxyz123456e1:q3:get1:t2:aa1:y1:qe",
		"d1:ad2:id20:abcdefghij01234567893:seqi1e5:token8:aoeusnth1:v4:teste1:q3:put1:t2:aa1:y1:qe",
		"d1:rd2:id20:abcdefghij01234567895:nodes26:aaaaaaaaaaaaaaaaaaaaxxxxyy5:token3:tok6:valuesl6:axje.uee1:t2:aa1:y1:re",
		"d1:rd2:id20:abcdefghij01234567891:k32:aaaaaaaaaaaaaaaaaaaaaaaaaaaaaaaa3:sig64:aaaaaaaaaaaaaaaaaaaaaaaaaaaaaaaaaaaaaaaaaaaaaaaaaaaaaaaaaaaaaaaa1:v1:xe1:t2:aa1:y1:re",
		"d1:eli201e23:A Generic Error Ocurrede1:t2:aa1:y1:ee",
		"d1:e5:hello1:t2:aa1:y1:ee",
	}
	for _, s := range seeds {
		f.Add([]byte(s), uint8(0))
		f.Add([]byte(s), uint8(3))
	}
	f.Fuzz(func(t *testing.T, data []byte, sel uint8) {
		if len(data) > 4000 {
			return
		}
		dual := sel&1 != 0
		var starting []*net.UDPAddr
		for i := 0; i < 2; i++ {
			starting = append(starting, c01Node(i, dual))
		}
		sv := newSrv(SrvOpts{NodeID: [20]byte{0xc0, 2}, PeerStore: sel&2 != 0, Starting: starting})
		defer sv.Close()
		net1 := newSimNet(sv)
		sv.C.DelayHook = func(gid int64, matched bool) time.Duration { return 5 * time.Millisecond }
		done := make(chan struct{})
		go func() {
			defer close(done)
			switch (sel >> 2) % 4 {
			case 0:
				sv.S.Bootstrap()
			case 1:
				if a, err := sv.S.Announce([20]byte{0xa0}, 6881, false); err == nil {
					for range a.Peers {
					}
				}
			case 2:
				getput.Get(context.Background(), bep44.Target{1}, sv.S, nil, nil)
			default:
				sv.S.Ping(starting[0])
			}
		}()
		fresh := &net.UDPAddr{IP: net.IP{83, 1, 1, 1}, Port: 8301}
		sv.C.Inject(fresh, data)
		waitFor(20*time.Millisecond, func() bool { return net1.NumQueries() > 0 })
		for _, q := range net1.Queries() {
			sv.C.Inject(q.To, data)
			if v, _, err := refmodel.Parse(data); err == nil && v.Kind == 'd' {
				sv.C.Inject(q.To, v.Set("t", bstr(q.T)).Encode(true))
			}
		}
		select {
		case <-done:
		case <-time.After(20 * time.Second):
			if ok, _ := sv.C.AllBlocked(); ok {
				t.Fatalf("VIOLATION-CANDIDATE C01:operation-wedged: in-flight operation did not return")
			}
			t.Skip("machine too busy")
		}
		if err := sv.C.Quiesce(barrierTimeout); err != nil {
			t.Skip(err.Error())
		}
		mark := sv.C.NumOut()
		sv.C.Inject(&net.UDPAddr{IP: net.IP{83, 2, 2, 2}, Port: 8302}, mkQuery([]byte("fz"), "ping", mkArgs([20]byte{0xf0})))
		if err := sv.C.Quiesce(barrierTimeout); err != nil {
			t.Skip(err.Error())
		}
		if !waitFor(2*time.Second, func() bool { return sv.C.NumOut() > mark }) {
			t.Fatalf("VIOLATION-CANDIDATE C01:node-stopped-serving: no reply to the probe ping after datagram %q", data)
		}
	})
}

func init() {
	kit.Register("C01a",
		"rapid: a node in a generated configuration (peer store on/off, BEP 42 enforcement on/off with a public IP, passive, query hook allow/veto, udp4 or dual-stack), after a prelude that puts 0..5 peers into the table, the peer store and the item store through genuine exchanges, runs one operation over simulated starting nodes (none / Ping / Bootstrap / Announce with port, implied port, scrape, no announce / getput.Get immutable and mutable with salt and seq / getput.Put / an Announce whose peers channel nobody reads, closed after the datagram sequence / Server.TableMaintainer in the background, each burst of bucket-filling pings with a maintenance pass of its own) and is sent 1..40 datagrams: raw bytes, arbitrary bencode, nesting up to 3000 deep, strings up to 65 400 bytes, datagrams of 65 535..70 000 bytes, byte-mutated valid messages of every method (library-encoded and hand-encoded), KRPC-shaped dictionaries with mistyped and mis-sized fields, and adversarial replies to the operation's own live queries (from the queried address, or with the live transaction ID from elsewhere) whose response fields id / nodes / nodes6 / token / values / v / k / sig / seq / BFsd / BFpe / samples / interval / num / ip are each independently absent, valid or malformed, with y in r/e/x/absent, every `e` form and trailing bytes. Oracle: the process does not die (write-ahead journal + crash triage in the driver); once the adversary stops, the operation returns and Stats/NumNodes/Nodes/WriteStatus return (deadlock detector); a well-formed ping from a never-used address is answered by one response carrying the node's ID (nothing when passive or vetoing). Non-trivial: a datagram reached a query handler, or a hostile reply was delivered from the address of a live query.",
		[]string{"source addresses are what a socket can deliver: 4-byte or 16-byte IPs, non-zero ports", "pending queries wait 25 ms of real time for hostile replies: which queries are live when a reply is crafted depends on timing, so a failing case may need several replays; the verdicts (death, deadlock, silence) do not depend on timing"},
		genC01, runC01)
}
