package props

// C14 — Every query and traversal ends and cleans up after itself.
//
// Fault enumeration: the placements are exact, not timed. The socket write (BeforeWrite / OnWrite)
// and the QueryResendDelay callback are the synchronisation points at which the harness delivers a
// reply, cancels the context, fails the write or closes the server, on the sender's own goroutine.

import (
	"context"
	"encoding/json"
	"errors"
	"fmt"
	"net"
	"os"
	"sort"
	"sync"
	"testing"
	"time"

	"pgregory.net/rapid"

	dht "github.com/anacrolix/dht/v2"
	"github.com/anacrolix/dht/v2/bep44"
	"github.com/anacrolix/dht/v2/exts/getput"
	"github.com/anacrolix/dht/v2/krpc"

	"verifharness/kit"
	"verifharness/refmodel"
	"verifharness/simnet"
)

type C14Sc struct {
	Op       string // query | ping | bootstrap | announce | get | put | tm
	NumTries int
	// Fault (query/ping): none | reply-at-send | reply-at-final-wait | reply-after-return | cancel-before-send |
	// cancel-at-delay | cancel-and-reply-at-send | write-error | close-at-delay | after-close
	// Fault (traversals): none | no-starting | resolver-error | silent | write-error | close-at-write | cancel-at-write | after-close
	Fault string
	At    int
	// Repeat the cell this many times on one server, so that a leak per call becomes countable.
	Repeat int
	Nodes  int
	// Second fault for the random family (query ops): a write error on this send (0 = none)
	AlsoWriteErrorAt int
	// LoopLast (traversal ops): schedule perturbation through the VerifBeforeSelect hook - on every pass
	// the lookup's run loop is held between releasing its lock and blocking until everything else in the
	// node has settled, so that every completion of that pass lands in that window.
	LoopLast bool
	// rlquery cells: the limiter's burst is At-1 and it never refills
	RLWaitRetries, RLNoWaitFirst bool
	// Blocklist: the node has an IP blocklist installed that covers none of the addresses involved
	Blocklist bool
	// AnnErr (traversal ops): the simulated nodes answer announce_peer and put with a KRPC error
	AnnErr bool
}

var c14QueryFaults = []string{"none", "reply-at-send", "reply-at-final-wait", "reply-after-return", "cancel-before-send", "cancel-at-delay", "cancel-and-reply-at-send", "write-error", "close-at-delay", "after-close"}
var c14TravFaults = []string{"none", "no-starting", "resolver-error", "silent", "write-error", "close-at-write", "cancel-at-write", "after-close"}
var c14TravOps = []string{"bootstrap", "announce", "get", "put", "tm"}

func genC14(t *rapid.T) C14Sc {
	var sc C14Sc
	if lvl := uniformInt(t, 9, "level"); lvl == 8 {
		sc.Op = "rlquery"
		sc.NumTries = 1 + uniformInt(t, 3, "numtries")
		sc.At = 1 + uniformInt(t, sc.NumTries+1, "at")
		sc.Fault = pick(t, "fault", "reply-while-waiting", "reply-while-waiting", "cancel-while-waiting", "other-query-while-waiting", "stats-while-waiting")
		sc.RLWaitRetries, sc.RLNoWaitFirst = rapid.Bool().Draw(t, "waitretries"), uniformInt(t, 4, "nowaitfirst") == 0
	} else if lvl < 4 {
		sc.Op = pick(t, "op", "query", "query", "query", "ping")
		sc.NumTries = 1 + uniformInt(t, 4, "numtries")
		if sc.Op == "ping" {
			sc.NumTries = 1
		}
		sc.Fault = pick(t, "fault", c14QueryFaults...)
		sc.At = 1 + uniformInt(t, sc.NumTries+1, "at")
		if uniformInt(t, 4, "also") == 0 {
			sc.AlsoWriteErrorAt = 1 + uniformInt(t, sc.NumTries, "alsoat")
		}
	} else {
		sc.Op = pick(t, "op", c14TravOps...)
		sc.Fault = pick(t, "fault", c14TravFaults...)
		sc.At = 1 + uniformInt(t, 12, "at")
		sc.Nodes = 1 + uniformInt(t, 14, "nodes")
		sc.LoopLast = uniformInt(t, 3, "looplast") == 0
	}
	sc.Repeat = 1 + uniformInt(t, 4, "repeat")
	sc.Blocklist = uniformInt(t, 3, "blocklist") == 0
	sc.AnnErr = uniformInt(t, 4, "annerr") == 0
	return sc
}

func censusDiff(base, now map[string]int) string {
	var l []string
	for k, v := range now {
		if v > base[k] {
			l = append(l, fmt.Sprintf("%s x%d", k, v-base[k]))
		}
	}
	sort.Strings(l)
	return fmt.Sprint(l)
}

func runC14(sc C14Sc, c *kit.Case) *kit.Violation {
	c.Label("op-" + sc.Op)
	c.Label("fault-" + sc.Fault)
	if sc.Fault != "none" {
		c.NonTrivial()
	}
	if sc.Op == "query" || sc.Op == "ping" {
		return runC14Query(sc, c)
	}
	if sc.Op == "rlquery" {
		return runC14RL(sc, c)
	}
	return runC14Trav(sc, c)
}

// cleanup checks, common to both families
func c14Cleanup(sv *Srv, c *kit.Case, base map[string]int, closed bool, what string) *kit.Violation {
	if err := sv.C.Quiesce(barrierTimeout); err != nil {
		c.Inconclusive = err.Error()
		return nil
	}
	st, sv1, ok := sv.stats(c, "C14", what)
	if !ok {
		return sv1
	}
	if n := st.OutstandingTransactions; n != 0 {
		return kit.Violatef("C14:transaction-left-behind", "%s: %d transactions are still pending after the call returned and the node went quiet", what, n)
	}
	now := sv.C.Census()
	if closed {
		base = map[string]int{}
	}
	if d := censusDiff(base, now); d != "[]" {
		// negative-evidence rule does not apply (a goroutine that exists is positive evidence), but give
		// goroutines that are merely finishing a moment
		waitFor(500*time.Millisecond, func() bool { return censusDiff(base, sv.C.Census()) == "[]" })
		now = sv.C.Census()
		if d = censusDiff(base, now); d != "[]" {
			return kit.Violatef("C14:goroutine-left-behind", "%s: goroutines of the library are still alive after the call returned and the node went quiet: %s", what, d)
		}
	}
	return nil
}

func runC14Query(sc C14Sc, c *kit.Case) *kit.Violation {
	qopts := SrvOpts{NodeID: [20]byte{0xc1, 4}}
	if sc.Blocklist {
		qopts.Blocklist = &blockSet{ips: []net.IP{{203, 0, 113, 99}}}
		c.Label("irrelevant-blocklist-installed")
	}
	sv := newSrv(qopts)
	closedByTest := false
	defer func() {
		if !closedByTest {
			sv.Close()
		}
	}()
	if !sv.barrier(c) {
		return nil
	}
	base := sv.C.Census()
	dest := &net.UDPAddr{IP: net.IP{61, 1, 1, 1}, Port: 6111}
	destID := [20]byte{0xd1}
	n := sc.NumTries
	repeat := sc.Repeat
	if sc.Fault == "close-at-delay" || sc.Fault == "after-close" {
		repeat = 1
	}
	for rep := 0; rep < repeat; rep++ {
		var mu sync.Mutex
		writeIdx, delayIdx := 0, 0
		replied, closedNow, cancelled := false, false, false
		var tOnWire string
		writesAfterClose := 0
		ctx, cancel := context.WithCancel(context.Background())
		defer cancel()
		reply := func(t string) { sv.C.Inject(dest, mkResponse([]byte(t), stdReturn(destID, nil, nil))) }
		sv.C.BeforeWrite = func(to *net.UDPAddr, data []byte) {
			mu.Lock()
			defer mu.Unlock()
			if (sc.Fault == "cancel-before-send" || sc.Fault == "cancel-and-reply-at-send") && writeIdx+1 == sc.At && sc.Op == "query" {
				cancelled = true
				cancel()
			}
		}
		sv.C.OnWrite = func(o simnet.Out) (bool, error) {
			m := parseOut(o)
			mu.Lock()
			defer mu.Unlock()
			if m.Y != "q" {
				return false, nil
			}
			writeIdx++
			tOnWire = m.T
			if closedNow {
				writesAfterClose++
			}
			if (sc.Fault == "write-error" && writeIdx == sc.At) || (sc.AlsoWriteErrorAt != 0 && writeIdx == sc.AlsoWriteErrorAt) {
				return false, errors.New("simulated socket write failure")
			}
			if (sc.Fault == "reply-at-send" || sc.Fault == "cancel-and-reply-at-send") && writeIdx == sc.At && !replied {
				replied = true
				reply(m.T)
				return true, nil
			}
			return false, nil
		}
		sv.C.DelayHook = func(gid int64, matched bool) time.Duration {
			mu.Lock()
			delayIdx++
			di := delayIdx
			t := tOnWire
			wasCancelled := cancelled
			mu.Unlock()
			switch {
			case matched || wasCancelled:
				// a cancelled sender must see its context, not a zero timer racing it
				return time.Hour
			case sc.Fault == "reply-at-final-wait" && di == n+1:
				mu.Lock()
				replied = true
				mu.Unlock()
				reply(t)
				return time.Hour
			case sc.Fault == "cancel-at-delay" && di == sc.At && sc.Op == "query":
				mu.Lock()
				cancelled = true // every later wait of this sender is long too: it must see its context, not a zero timer racing it
				mu.Unlock()
				cancel()
				return time.Hour
			case sc.Fault == "close-at-delay" && di == sc.At:
				mu.Lock()
				closedNow = true
				mu.Unlock()
				sv.S.Close()
				return 0
			}
			return 0
		}
		if sc.Fault == "after-close" {
			sv.S.Close()
			closedNow = true
		}
		type qres struct{ r dht.QueryResult }
		done := make(chan qres, 1)
		go func() {
			if sc.Op == "ping" {
				done <- qres{sv.S.Ping(dest)}
			} else {
				done <- qres{sv.S.Query(ctx, dht.NewAddr(dest), "ping", dht.QueryInput{NumTries: n})}
			}
		}()
		var res dht.QueryResult
		select {
		case r := <-done:
			res = r.r
		case <-time.After(20 * time.Second):
			if ok, who := sv.C.AllBlocked(); !ok {
				c.Inconclusive = "query still running after 20 s with runnable goroutines: " + who
				return nil
			}
			return kit.Violatef("C14:query-never-returned", "%+v: the query did not return although every module goroutine is blocked", sc)
		}
		mu.Lock()
		w, d := writeIdx, delayIdx
		mu.Unlock()
		what := fmt.Sprintf("%s NumTries=%d fault=%s at=%d also-write-error-at=%d (rep %d): returned err=%v after %d datagrams, %d delay calls", sc.Op, n, sc.Fault, sc.At, sc.AlsoWriteErrorAt, rep, res.Err, w, d)
		if w > n {
			return kit.Violatef("C14:too-many-datagrams", "%s: more datagrams than NumTries", what)
		}
		// which outcome does the placement dictate?
		wantKind, wantWrites := c14Expect(sc)
		gotKind := "error"
		switch {
		case res.Err == nil && res.Reply.R != nil:
			gotKind = "reply"
		case errors.Is(res.Err, context.Canceled):
			gotKind = "canceled"
		case errors.Is(res.Err, dht.TransactionTimeout):
			gotKind = "timeout"
		case res.Err == nil:
			gotKind = "empty"
		}
		ok := gotKind == wantKind || (wantKind == "error-any" && (gotKind == "error" || gotKind == "canceled")) || (wantKind == "reply-or-canceled" && (gotKind == "reply" || gotKind == "canceled"))
		if !ok {
			return kit.Violatef("C14:wrong-outcome", "%s: the placement dictates outcome %q", what, wantKind)
		}
		if w != wantWrites {
			return kit.Violatef("C14:wrong-datagram-count", "%s: the placement dictates %d datagrams", what, wantWrites)
		}
		if writesAfterClose > 0 {
			return kit.Violatef("C14:write-after-close", "%s: %d datagrams were written after the server was closed", what, writesAfterClose)
		}
		if int(res.Writes) > w {
			return kit.Violatef("C14:wrong-datagram-count", "%s: the result reports %d writes", what, res.Writes)
		}
		closed := closedNow
		if closed {
			closedByTest = true
			sv.Close()
		}
		if v := c14Cleanup(sv, c, base, closed, what); v != nil || c.Inconclusive != "" {
			return v
		}
		if sc.Fault == "reply-after-return" {
			// a reply that comes after the time-out finds no transaction and changes nothing
			mark := sv.C.NumOut()
			reply(tOnWire)
			if v := c14Cleanup(sv, c, base, false, what+" + late reply"); v != nil || c.Inconclusive != "" {
				return v
			}
			if sv.C.NumOut() != mark {
				return kit.Violatef("C14:late-reply-caused-traffic", "%s: a reply delivered after the time-out caused a datagram", what)
			}
		}
		if closed {
			// after Close, a new query fails without sending anything
			mark := sv.C.NumOut()
			r2 := sv.S.Query(context.Background(), dht.NewAddr(dest), "ping", dht.QueryInput{})
			if r2.Err == nil {
				return kit.Violatef("C14:query-after-close-succeeded", "%s: a query issued after Close returned without error", what)
			}
			if sv.C.NumOut() != mark {
				return kit.Violatef("C14:write-after-close", "%s: a query issued after Close wrote a datagram", what)
			}
			break
		}
	}
	return nil
}

// c14Expect replays the placement against the documented send loop: send, wait, ..., final wait.
func c14Expect(sc C14Sc) (kind string, writes int) {
	n := sc.NumTries
	ctxOp := sc.Op == "query"
	if sc.Fault == "after-close" {
		return "error", 0
	}
	cancelled := false
	for i := 1; i <= n; i++ {
		if (sc.Fault == "cancel-before-send" || sc.Fault == "cancel-and-reply-at-send") && sc.At == i && ctxOp {
			cancelled = true
		}
		if (sc.Fault == "write-error" && sc.At == i) || sc.AlsoWriteErrorAt == i {
			if cancelled {
				return "error-any", i
			}
			return "error", i
		}
		if (sc.Fault == "reply-at-send" || sc.Fault == "cancel-and-reply-at-send") && sc.At == i {
			if cancelled {
				return "reply-or-canceled", i
			}
			return "reply", i
		}
		if cancelled {
			return "canceled", i
		}
		if sc.Fault == "cancel-at-delay" && sc.At == i && ctxOp {
			return "canceled", i
		}
		if sc.Fault == "close-at-delay" && sc.At == i && i < n {
			return "error", i // the next send is refused before it reaches the socket
		}
	}
	switch {
	case sc.Fault == "reply-at-final-wait":
		return "reply", n
	case sc.Fault == "cancel-at-delay" && sc.At == n+1 && ctxOp:
		return "canceled", n
	}
	return "timeout", n
}

func runC14Trav(sc C14Sc, c *kit.Case) *kit.Violation {
	nNodes := sc.Nodes
	if nNodes < 1 {
		nNodes = 1
	}
	opts := SrvOpts{NodeID: [20]byte{0xc1, 0x14}}
	switch sc.Fault {
	case "no-starting":
	case "resolver-error":
		opts.StartingErr = true
	default:
		opts.Starting = []*net.UDPAddr{friendlyAddr(0)}
		if nNodes > 1 {
			opts.Starting = append(opts.Starting, friendlyAddr(1))
		}
	}
	if sc.Blocklist {
		opts.Blocklist = &blockSet{ips: []net.IP{{203, 0, 113, 99}}}
		c.Label("irrelevant-blocklist-installed")
	}
	sv := newSrv(opts)
	closedByTest := false
	defer func() {
		if !closedByTest {
			sv.Close()
		}
	}()
	if !sv.barrier(c) {
		return nil
	}
	if sc.LoopLast {
		c.Label("run-loop-always-last")
		defer runLoopLast(sv)()
	}
	base := sv.C.Census()
	net1 := newSimNet(sv)
	fn := addFriendlyNet(net1, nNodes, func(i int, q SimQuery) bool { return sc.Fault == "silent" })
	fn.Mapped = sc.At%3 == 1
	fn.WriteError = sc.AnnErr
	const heldValue = "9:c14-value"
	if sc.At%2 == 0 {
		fn.Value = heldValue // every node holds the item a get asks for: several holders answer at once
	}
	var mu sync.Mutex
	writes, totalWrites := 0, 0
	closedNow := false
	perT := map[string]int{}
	var cancel context.CancelFunc
	net1.FailWrite = func(o simnet.Out, m OutMsg) error {
		mu.Lock()
		defer mu.Unlock()
		if m.Y != "q" {
			return nil
		}
		writes++
		totalWrites++
		perT[o.To.String()+"|"+m.T]++
		switch {
		case sc.Fault == "write-error" && writes == sc.At:
			return errors.New("simulated socket write failure")
		case sc.Fault == "close-at-write" && writes == sc.At && !closedNow:
			closedNow = true
			go sv.S.Close() // Close takes the server lock, which this sender does not hold; do it alongside
		case sc.Fault == "cancel-at-write" && writes == sc.At && cancel != nil:
			cancel()
		}
		return nil
	}
	// A reply queued just before Close is never read, so its query must not wait a virtual hour for it:
	// in the Close cells answered queries wait a bounded real time instead (the library's own resend
	// delay would be 2 s), and after Close nothing waits.
	sv.C.DelayHook = func(gid int64, matched bool) time.Duration {
		mu.Lock()
		cl := closedNow
		mu.Unlock()
		switch {
		case cl:
			return 0
		case matched && (sc.Fault == "close-at-write" || sc.Op == "tm"):
			return 40 * time.Millisecond
		case matched:
			return time.Hour
		}
		return 0
	}
	repeat := sc.Repeat
	if sc.Fault == "close-at-write" || sc.Fault == "after-close" || sc.Op == "tm" {
		repeat = 1
	}
	if sc.Fault == "after-close" {
		sv.S.Close()
		closedNow = true
	}
	key := b44Key(77)
	var k32 [32]byte
	copy(k32[:], key.pub)
	for rep := 0; rep < repeat; rep++ {
		ctx, cf := context.WithCancel(context.Background())
		mu.Lock()
		cancel = cf
		writes = 0
		mu.Unlock()
		done := make(chan error, 1)
		what := fmt.Sprintf("%s over %d nodes, fault=%s at=%d (rep %d)", sc.Op, nNodes, sc.Fault, sc.At, rep)
		switch sc.Op {
		case "bootstrap":
			go func() { _, err := sv.S.BootstrapContext(ctx); done <- err }()
		case "announce":
			go func() {
				a, err := sv.S.Announce([20]byte{0xa1, byte(rep)}, 7000, false)
				if err != nil {
					done <- err
					return
				}
				for range a.Peers {
				}
				<-a.Finished()
				done <- nil
			}()
		case "get":
			go func() {
				_, _, err := getput.Get(ctx, bep44.Target(refmodel.Bep44ImmutableTarget([]byte(heldValue))), sv.S, nil, nil)
				done <- err
			}()
		case "put":
			go func() {
				target := bep44.MakeMutableTarget(k32, nil)
				_, err := getput.Put(ctx, krpc.ID(target), sv.S, nil, func(seq int64) bep44.Put {
					p := bep44.Put{V: "c14", K: &k32, Seq: seq + int64(rep) + 1}
					p.Sign(key.priv)
					return p
				})
				done <- err
			}()
		case "tm":
			simnet.Go(func() { sv.S.TableMaintainer(); done <- nil })
			// one pass, then Close ends the maintainer
			if err := sv.C.Quiesce(barrierTimeout); err != nil {
				c.Inconclusive = err.Error()
				cf()
				return nil
			}
			mu.Lock()
			closedNow = true
			mu.Unlock()
			closeDone := make(chan struct{})
			simnet.Go(func() { sv.S.Close(); close(closeDone) })
			select {
			case <-closeDone:
			case <-time.After(10 * time.Second):
				cf()
				if ok, who := sv.C.AllBlocked(); !ok {
					c.Inconclusive = "Close still running after 10 s with runnable goroutines: " + who
					return nil
				}
				return kit.Violatef("C14:operation-never-returned", "%s: Server.Close() did not return although every module goroutine is blocked", what)
			}
		}
		var err error
		// an operation over n addresses queries each at most once per lookup (a handful of lookups per
		// operation): one that keeps writing far beyond that is not going to end
		runaway := time.NewTicker(20 * time.Millisecond)
		defer runaway.Stop()
		giveUp := time.After(30 * time.Second)
	waitOp:
		for {
			select {
			case err = <-done:
				break waitOp
			case <-runaway.C:
				mu.Lock()
				tw := totalWrites
				mu.Unlock()
				if tw > 200*(nNodes+2)*(rep+1) {
					cf()
					return kit.Violatef("C14:operation-keeps-querying", "%s: %d query datagrams written for %d known addresses and the call has not returned", what, tw, nNodes)
				}
			case <-giveUp:
				cf()
				if ok, who := sv.C.AllBlocked(); !ok {
					c.Inconclusive = what + ": still running after 30 s with runnable goroutines: " + who
					return nil
				}
				return kit.Violatef("C14:operation-never-returned", "%s: the call did not return although every module goroutine is blocked", what)
			}
		}
		cf()
		what += fmt.Sprintf(": returned err=%v", err)
		mu.Lock()
		closed := closedNow
		var dupT []string
		maxPerT := 1
		if sc.Op == "tm" {
			maxPerT = 3 // questionable-node pings are sent up to three times
		}
		for k, n := range perT {
			if n > maxPerT {
				dupT = append(dupT, fmt.Sprintf("%s x%d", k, n))
			}
		}
		mu.Unlock()
		sort.Strings(dupT)
		if len(dupT) > 0 {
			return kit.Violatef("C14:too-many-datagrams", "%s: a traversal query (one try) was written more than once: %v", what, dupT)
		}
		if (sc.Fault == "no-starting" || sc.Fault == "resolver-error") && err == nil && sc.Op != "tm" {
			return kit.Violatef("C14:wrong-outcome", "%s: the operation reports success without any starting node", what)
		}
		if closed {
			closedByTest = true
			sv.Close()
		}
		if v := c14Cleanup(sv, c, base, closed, what); v != nil || c.Inconclusive != "" {
			return v
		}
		if closed {
			mark := sv.C.NumOut()
			r2 := sv.S.Query(context.Background(), dht.NewAddr(friendlyAddr(0)), "ping", dht.QueryInput{})
			if r2.Err == nil {
				return kit.Violatef("C14:query-after-close-succeeded", "%s: a query issued after Close returned without error", what)
			}
			if sv.C.NumOut() != mark {
				return kit.Violatef("C14:write-after-close", "%s: a query issued after Close wrote a datagram", what)
			}
			break
		}
	}
	return nil
}

// TestC14Grid enumerates the whole placement grid once (rapid draws random cells and combinations).
func TestC14Grid(t *testing.T) {
	if os.Getenv("VERIF_OUT") == "" {
		t.Skip("driven by the check driver")
	}
	p := kit.Lookup("C14a")
	cells := 0
	run := func(sc C14Sc) {
		cells++
		if v := p.RunCase(sc); v != nil {
			b, _ := json.Marshal(sc)
			t.Fatalf("VIOLATION-CANDIDATE %s: %s (cell %s)", v.Key, v.Msg, b)
		}
	}
	for n := 1; n <= 4; n++ {
		for _, f := range c14QueryFaults {
			ats := []int{1}
			switch f {
			case "reply-at-send", "cancel-before-send", "cancel-and-reply-at-send", "write-error":
				ats = nil
				for i := 1; i <= n; i++ {
					ats = append(ats, i)
				}
			case "cancel-at-delay", "close-at-delay":
				ats = nil
				for i := 1; i <= n+1; i++ {
					ats = append(ats, i)
				}
			}
			for _, at := range ats {
				run(C14Sc{Op: "query", NumTries: n, Fault: f, At: at, Repeat: 3})
			}
		}
	}
	for _, f := range c14QueryFaults {
		run(C14Sc{Op: "ping", NumTries: 1, Fault: f, At: 1, Repeat: 3})
	}
	for _, op := range c14TravOps {
		for _, f := range c14TravFaults {
			ats := []int{1}
			if f == "write-error" || f == "close-at-write" || f == "cancel-at-write" {
				ats = []int{1, 2, 3, 5, 8}
			}
			for _, at := range ats {
				for _, nodes := range []int{1, 3, 12} {
					run(C14Sc{Op: op, Fault: f, At: at, Nodes: nodes, Repeat: 3})
				}
			}
		}
	}
	kit.Extra("grid_cells", cells)
	kit.Extra("exhaustive", true)
}

func init() {
	kit.Register("C14a",
		"fault-placement grid, enumerated completely by TestC14Grid and sampled with combinations by rapid: Query with NumTries 1..4 and Ping x {no fault; reply delivered inside send i; reply delivered in the wait after the last send; reply after the time-out; context cancelled inside send i / in the resend wait i / in the final wait; cancelled and answered inside the same send; socket write error on send i (optionally a second one); Close in wait i; query after Close}, and Bootstrap / Announce / getput.Get / getput.Put / one TableMaintainer pass over 1..14 simulated nodes x {no fault; no starting nodes; starting-node resolver error; nobody answers; write error on the k-th write; Close at the k-th write; context cancelled at the k-th write; after Close}; each cell repeated 1..4 times on one server. Placements are exact: the fault is applied on the sender's goroutine inside the socket write or the QueryResendDelay callback. Oracle: the call returns (deadlock detector); result = the reply, context.Canceled, the write error or TransactionTimeout as the placement dictates; datagrams carrying one transaction ID <= NumTries and exactly as many as the placement dictates; afterwards no pending transaction and the multiset of library goroutines equals the idle baseline (none after Close); after Close a new query fails and writes nothing; a reply after the time-out changes nothing. Non-trivial: any cell other than 'no fault'.",
		[]string{"time-outs are virtual: the resend-delay callback returns 0 for unanswered sends and one hour once the scripted reply is queued", "goroutine census = goroutines with a frame of, or created by, the module under test, keyed by innermost module function"},
		genC14, runC14)
}
