// Package simnet is the simulated socket: a net.PacketConn whose inbound queue and outbound log are
// owned by the harness, plus the quiescence barrier that tells when everything a datagram caused
// has finished.
package simnet

import (
	"bytes"
	"errors"
	"fmt"
	"net"
	"runtime"
	"strconv"
	"strings"
	"sync"
	"sync/atomic"
	"time"
)

const Module = "github.com/anacrolix/dht/v2"

// trackedMarker names Tracked in goroutine dumps: a goroutine started as `go simnet.Tracked(f)` counts
// as a goroutine of the module under test from the moment it is created, so that a barrier taken
// right after the `go` statement cannot settle before f has even begun to run.
const trackedMarker = "verifharness/simnet.Tracked"

// Go starts f on a new goroutine that the barrier regards as busy from this very call on: a counter
// covers the window until the goroutine runs, and from then on its stack carries the Tracked frame.
func Go(f func()) {
	starting.Add(1)
	go Tracked(f)
}

//go:noinline
func Tracked(f func()) {
	starting.Add(-1)
	f()
	trackedSink.Add(1)
}

var (
	trackedSink atomic.Int64
	starting    atomic.Int64
)

// Out is one datagram the node wrote.
type Out struct {
	Seq  int
	To   *net.UDPAddr
	Data []byte
	At   time.Time
	// Goroutine that called WriteTo.
	G int64
	// Set when the harness made WriteTo fail for this datagram.
	Failed bool
}

type in struct {
	from net.Addr
	data []byte
}

type Conn struct {
	mu     sync.Mutex
	cond   *sync.Cond
	inq    []in
	parked bool
	closed bool
	local  net.Addr
	out    []Out
	// OnWrite runs synchronously on the sender's goroutine before WriteTo returns. It may Inject
	// replies. matched tells the virtual time-out logic that a reply completing this query has been
	// queued; a non-nil err is returned from WriteTo (the datagram is logged as Failed).
	OnWrite func(o Out) (matched bool, err error)
	// ShortWrite, if set and true for a datagram, makes WriteTo report one byte less than it was given,
	// with a nil error (a truncating path).
	ShortWrite func(o Out) bool
	// BeforeWrite, if set, runs before anything else in WriteTo (used to park senders).
	BeforeWrite func(to *net.UDPAddr, data []byte)
	matched     map[int64]bool
	// shortWait: goroutines that were last told to wait a short (virtual-zero or bounded real) time.
	// Such a goroutine sits in a select on a timer that is about to fire; in a goroutine dump it looks
	// exactly like one that waits an hour, and under load the runtime may take longer to fire the timer
	// than the barrier takes to look twice. The barrier therefore counts it as busy.
	shortWait map[int64]bool
	// DelayHook, if set, overrides the virtual time-out decision.
	DelayHook func(gid int64, matched bool) time.Duration
	delays    int
}

func New(local *net.UDPAddr) *Conn {
	c := &Conn{local: local, matched: map[int64]bool{}, shortWait: map[int64]bool{}}
	c.cond = sync.NewCond(&c.mu)
	return c
}

// SetLocalAddr replaces the address LocalAddr reports (any net.Addr).
func (c *Conn) SetLocalAddr(a net.Addr) { c.local = a }

func (c *Conn) ReadFrom(b []byte) (int, net.Addr, error) {
	c.mu.Lock()
	defer c.mu.Unlock()
	for len(c.inq) == 0 && !c.closed {
		c.parked = true
		c.cond.Wait()
	}
	c.parked = false
	if len(c.inq) == 0 {
		return 0, nil, net.ErrClosed
	}
	p := c.inq[0]
	c.inq = c.inq[1:]
	n := copy(b, p.data)
	return n, p.from, nil
}

func (c *Conn) WriteTo(b []byte, addr net.Addr) (int, error) {
	ua, _ := addr.(*net.UDPAddr)
	if c.BeforeWrite != nil {
		c.BeforeWrite(ua, b)
	}
	gid := GoID()
	c.mu.Lock()
	if c.closed {
		c.mu.Unlock()
		return 0, net.ErrClosed
	}
	o := Out{Seq: len(c.out), To: ua, Data: append([]byte(nil), b...), At: time.Now(), G: gid}
	delete(c.shortWait, gid)
	c.out = append(c.out, o)
	idx := len(c.out) - 1
	hook := c.OnWrite
	c.matched[gid] = false
	c.mu.Unlock()
	if hook != nil {
		matched, err := hook(o)
		c.mu.Lock()
		c.matched[gid] = matched
		if err != nil {
			c.out[idx].Failed = true
		}
		c.mu.Unlock()
		if err != nil {
			return 0, err
		}
	}
	if sw := c.ShortWrite; sw != nil && len(b) > 0 && sw(o) {
		return len(b) - 1, nil
	}
	return len(b), nil
}

// ResendDelay is the ServerConfig.QueryResendDelay callback implementing virtual time-outs: the
// sender goroutine calls it right after its WriteTo; it waits "forever" if a matching reply has
// already been queued and not at all otherwise, so no real timer ever races a scripted reply.
func (c *Conn) ResendDelay() time.Duration {
	gid := GoID()
	c.mu.Lock()
	m := c.matched[gid]
	hook := c.DelayHook
	c.delays++
	c.mu.Unlock()
	var d time.Duration
	switch {
	case hook != nil:
		d = hook(gid, m)
	case m:
		d = time.Hour
	}
	c.mu.Lock()
	if d < time.Minute {
		c.shortWait[gid] = true
	} else {
		delete(c.shortWait, gid)
	}
	c.mu.Unlock()
	return d
}

func (c *Conn) inShortWait(gid int64) bool {
	c.mu.Lock()
	defer c.mu.Unlock()
	return c.shortWait[gid]
}

func (c *Conn) Close() error {
	c.mu.Lock()
	c.closed = true
	c.cond.Broadcast()
	c.mu.Unlock()
	return nil
}

func (c *Conn) Closed() bool {
	c.mu.Lock()
	defer c.mu.Unlock()
	return c.closed
}

func (c *Conn) LocalAddr() net.Addr                { return c.local }
func (c *Conn) SetDeadline(t time.Time) error      { return nil }
func (c *Conn) SetReadDeadline(t time.Time) error  { return nil }
func (c *Conn) SetWriteDeadline(t time.Time) error { return nil }

// Inject queues a datagram for the serve loop.
func (c *Conn) Inject(from net.Addr, data []byte) {
	// like a real socket, hand the reader an address object of its own: whatever the node does to it must
	// not alias the harness's notion of who sent the datagram
	if ua, ok := from.(*net.UDPAddr); ok && ua != nil {
		from = &net.UDPAddr{IP: append(net.IP(nil), ua.IP...), Port: ua.Port, Zone: ua.Zone}
	}
	c.mu.Lock()
	c.inq = append(c.inq, in{from, append([]byte(nil), data...)})
	c.cond.Signal()
	c.mu.Unlock()
}

// Outs returns the datagrams written from index `from` on.
func (c *Conn) Outs(from int) []Out {
	c.mu.Lock()
	defer c.mu.Unlock()
	if from > len(c.out) {
		from = len(c.out)
	}
	return append([]Out(nil), c.out[from:]...)
}

func (c *Conn) NumOut() int {
	c.mu.Lock()
	defer c.mu.Unlock()
	return len(c.out)
}

// Idle reports whether the serve loop is parked in ReadFrom with nothing queued (or the socket is closed).
func (c *Conn) Idle() bool { return c.idle() }

func (c *Conn) idle() bool {
	c.mu.Lock()
	defer c.mu.Unlock()
	return (len(c.inq) == 0 && c.parked) || c.closed
}

// GoID is the current goroutine's ID.
func GoID() int64 {
	var buf [64]byte
	n := runtime.Stack(buf[:], false)
	// "goroutine 123 ["
	s := buf[len("goroutine "):n]
	i := bytes.IndexByte(s, ' ')
	id, _ := strconv.ParseInt(string(s[:i]), 10, 64)
	return id
}

// ---------------------------------------------------------------------------------------------
// Goroutine inspection

type GInfo struct {
	ID    int64
	State string
	Top   string // first function in the stack
	Text  string
}

var (
	stackMu  sync.Mutex
	stackBuf = make([]byte, 1<<18)
)

var blockedStates = map[string]bool{
	"chan receive": true, "chan send": true, "select": true, "semacquire": true,
	"sync.Mutex.Lock": true, "sync.RWMutex.RLock": true, "sync.RWMutex.Lock": true,
	"sync.Cond.Wait": true, "sleep": true, "IO wait": true, "chan receive (nil chan)": true,
	"chan send (nil chan)": true, "select (no cases)": true, "sync.WaitGroup.Wait": true,
}

// ModuleGoroutines lists the goroutines that have a frame of the module under test (or were
// created by it), except the calling goroutine.
func (c *Conn) ModuleGoroutines() []GInfo {
	stackMu.Lock()
	defer stackMu.Unlock()
	buf := stackBuf
	var n int
	for {
		n = runtime.Stack(buf, true)
		if n < len(buf) {
			break
		}
		buf = make([]byte, 2*len(buf))
		stackBuf = buf
	}
	me := GoID()
	var ret []GInfo
	for _, blk := range strings.Split(string(buf[:n]), "\n\n") {
		if !strings.Contains(blk, Module) && !strings.Contains(blk, trackedMarker) {
			continue
		}
		if !strings.HasPrefix(blk, "goroutine ") {
			continue
		}
		nl := strings.IndexByte(blk, '\n')
		if nl < 0 {
			continue
		}
		hdr := blk[:nl]
		sp := strings.IndexByte(hdr[10:], ' ')
		id, _ := strconv.ParseInt(hdr[10:10+sp], 10, 64)
		if id == me {
			continue
		}
		lb, rb := strings.IndexByte(hdr, '['), strings.LastIndexByte(hdr, ']')
		state := hdr[lb+1 : rb]
		if i := strings.IndexByte(state, ','); i >= 0 {
			state = state[:i]
		}
		rest := blk[nl+1:]
		top := rest
		if i := strings.IndexByte(rest, '\n'); i >= 0 {
			top = rest[:i]
		}
		ret = append(ret, GInfo{ID: id, State: state, Top: top, Text: blk})
	}
	return ret
}

func (c *Conn) busy(gs []GInfo) *GInfo {
	if starting.Load() > 0 {
		return &GInfo{State: "starting", Top: "a goroutine started with simnet.Go has not begun to run"}
	}
	for i := range gs {
		if !blockedStates[gs[i].State] {
			return &gs[i]
		}
		if k := frameKey(gs[i].Text); c.inShortWait(gs[i].ID) && (strings.HasSuffix(k, ".transactionSender") || strings.HasSuffix(k, ".transactionQuerySender")) {
			// innermost library frame is one of the two send loops, i.e. it sits in their timer select
			g := gs[i]
			g.State = "short timer wait"
			return &g
		}
	}
	return nil
}

var ErrNotQuiescent = errors.New("not quiescent")

// Quiesce returns nil once the inbound queue is drained, the serve loop is parked in ReadFrom, and
// every module goroutine is blocked, observed on two consecutive looks. It never reports a
// deadline as "settled".
func (c *Conn) Quiesce(timeout time.Duration) error {
	deadline := time.Now().Add(timeout)
	streak := 0
	var last *GInfo
	spins := 0
	for {
		if c.idle() {
			gs := c.ModuleGoroutines()
			if b := c.busy(gs); b == nil && c.idle() {
				streak++
				if streak >= 2 {
					return nil
				}
			} else {
				streak = 0
				last = b
			}
		} else {
			streak = 0
		}
		spins++
		if spins < 50 {
			runtime.Gosched()
		} else {
			time.Sleep(20 * time.Microsecond)
		}
		if time.Now().After(deadline) {
			if last != nil {
				return fmt.Errorf("%w after %v: goroutine %d [%s] %s", ErrNotQuiescent, timeout, last.ID, last.State, last.Top)
			}
			return fmt.Errorf("%w after %v: serve loop not parked", ErrNotQuiescent, timeout)
		}
	}
}

// AllBlocked reports whether every module goroutine is blocked right now (deadlock evidence) and
// otherwise names a runnable one.
func (c *Conn) AllBlocked() (bool, string) {
	gs := c.ModuleGoroutines()
	if b := c.busy(gs); b != nil {
		return false, fmt.Sprintf("goroutine %d [%s] %s", b.ID, b.State, b.Top)
	}
	return true, ""
}

// Census returns the multiset of module goroutines keyed by top function, for leak reports.
func (c *Conn) Census() map[string]int {
	m := map[string]int{}
	for _, g := range c.ModuleGoroutines() {
		m[frameKey(g.Text)]++
	}
	return m
}

// frameKey names a goroutine by the innermost module function on its stack.
func frameKey(text string) string {
	lines := strings.Split(text, "\n")
	for _, l := range lines[1:] {
		if strings.HasPrefix(l, "\t") {
			continue
		}
		if strings.Contains(l, Module) && !strings.HasPrefix(l, "created by") {
			if i := strings.LastIndexByte(l, '('); i > 0 {
				l = l[:i]
			}
			return l
		}
	}
	for _, l := range lines {
		if strings.HasPrefix(l, "created by") {
			return l
		}
	}
	return "?"
}

func UDP(ip net.IP, port int) *net.UDPAddr { return &net.UDPAddr{IP: ip, Port: port} }
