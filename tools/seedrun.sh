#!/bin/sh
# usage: seedrun.sh <patch.diff> <check-id> [tier]   -- applies a seeded change to /repo, runs one check, always restores /repo.
patch="$1"; id="$2"; tier="${3:-quick}"
export VERIF_EVIDENCE_DIR=/tmp/verif-scratch-evidence
exec 9>/tmp/repo.lock; flock 9   # /repo's working tree is shared: one patched build at a time
cd /repo || exit 9
git diff --quiet || { echo "repo dirty, refusing"; exit 9; }
git apply "$patch" || { echo "patch does not apply"; exit 8; }
export GOFLAGS=-mod=mod GOPROXY=off GOSUMDB=off GOTOOLCHAIN=local
go build ./... 2>&1 | head -5
cd /verif && ./check "$id" "$tier" > /tmp/seedrun.$$.log 2>&1
rc=$?
grep -E "^(violation|VIOLATION|KNOWN|INCONCLUSIVE|  job)" /tmp/seedrun.$$.log | cut -c1-700
echo "check exit=$rc"
rm -f /tmp/seedrun.$$.log
git -C /repo checkout -- .
git -C /repo status --short | head -3
