#!/usr/bin/env python3
"""Verifies a seeded change independently in a scratch worktree:
   patch applies, library builds, the existing suite passes with it, the demonstration fails with it and passes without.
   usage: seedverify.py <Cxx> <mN> [--store] [--src DIR] [--as mK]     (reads /tmp/seed/out-Cxx/mN, writes /verif/seeded/Cxx-mN when --store)"""
import subprocess, sys, os, re, glob, json, shutil
prop, m = sys.argv[1], sys.argv[2]
store = '--store' in sys.argv
root = sys.argv[sys.argv.index('--src') + 1] if '--src' in sys.argv else '/tmp/seed'
store_as = sys.argv[sys.argv.index('--as') + 1] if '--as' in sys.argv else m
src = f'{root}/out-{prop}/{m}'
WT = '/tmp/seedv/wt'
env = dict(os.environ, GOFLAGS='-mod=mod', GOPROXY='off', GOSUMDB='off', GOTOOLCHAIN='local')
def sh(cmd, cwd=WT, timeout=1200):
    p = subprocess.run(cmd, shell=True, cwd=cwd, env=env, capture_output=True, text=True, errors='replace', timeout=timeout)
    return p.returncode, p.stdout + p.stderr
os.makedirs('/tmp/seedv', exist_ok=True)
if not os.path.isdir(WT):
    rc, o = sh('git -C /repo worktree add -q --detach /tmp/seedv/wt HEAD', cwd='/')
    assert rc == 0, o
sh('git checkout -q --detach $(git -C /repo rev-parse HEAD) && git checkout -- . && git clean -fdq')
PKGDIR = {'dht': '.', 'dht_test': '.', 'traversal': 'traversal', 'traversal_test': 'traversal', 'krpc': 'krpc', 'krpc_test': 'krpc',
          'bep44': 'bep44', 'bep44_test': 'bep44', 'int160': 'int160', 'int160_test': 'int160', 'k_nearest_nodes': 'k-nearest-nodes',
          'k_nearest_nodes_test': 'k-nearest-nodes', 'getput': 'exts/getput', 'getput_test': 'exts/getput', 'types': 'types', 'types_test': 'types',
          'containers': 'containers', 'containers_test': 'containers', 'peer_store': 'peer-store', 'peer_store_test': 'peer-store',
          'transactions': 'transactions', 'transactions_test': 'transactions', 'k_nearest_nodes_test': 'k-nearest-nodes'}
res = {'property': prop, 'id': f'{prop}-{store_as}'}
patch = os.path.join(src, 'patch.diff')
rc, o = sh(f'git apply --check {patch}')
if rc != 0:
    print(f'{prop} {m}: PATCH DOES NOT APPLY at HEAD: {o[:300]}'); sys.exit(3)
demos = [f for f in glob.glob(os.path.join(src, '*_test.go'))]
placed = []
tests = {}
for d in demos:
    txt = open(d).read()
    pk = re.search(r'^package\s+(\w+)', txt, re.M).group(1)
    ddir = PKGDIR.get(pk)
    if ddir is None:
        print(f'{prop} {m}: unknown package {pk} in {d}'); sys.exit(3)
    dst = os.path.join(WT, ddir, 'zz_seed_' + os.path.basename(d))
    shutil.copy(d, dst); placed.append((d, ddir, dst))
    tests.setdefault(ddir, []).extend(re.findall(r'^func (Test\w+)\(', txt, re.M))
def run_demos():
    ok_all, out_all = True, ''
    for ddir, ts in tests.items():
        if not ts: continue
        pat = '^(' + '|'.join(ts) + ')$'
        rc, o = sh(f"go test -vet=off -count=1 -run '{pat}' ./{ddir}")
        out_all += o[-1500:]
        if rc != 0: ok_all = False
    return ok_all, out_all
# without the change
ok, o = run_demos()
res['demo_passes_without'] = ok
if not ok: res['demo_without_output'] = o[-800:]
# with the change
rc, o = sh(f'git apply {patch}')
rc, o = sh('go build ./...')
res['builds'] = rc == 0
ok, o = run_demos()
res['demo_fails_with'] = not ok
res['demo_with_output'] = o[-600:]
# existing suite with the change (demo files removed)
for _, _, dst in placed: os.remove(dst)
suite_ok = True
for i in range(2):
    rc, o = sh('go test -vet=off -count=1 ./... 2>&1 | grep -v "no test files"')
    if 'FAIL' in o or rc != 0:
        # TestRateLimiterInadequate exercises only golang.org/x/time/rate with 1-2 ms timers and fails now and then
        # on the unchanged tree when the machine is loaded: a failure of that test alone is not attributed to the change
        rc2, o2 = sh("go test -vet=off -count=1 -json ./... 2>&1 | grep '\"Action\":\"fail\"' | grep '\"Test\"'")
        failing = set(re.findall(r'"Test":"([^"]+)"', o2))
        if failing - {'TestRateLimiterInadequate'} or (not failing and rc2 == 0 and False):
            suite_ok = False; res['suite_output'] = o[-800:]; res['failing_tests'] = sorted(failing)
res['suite_passes_with'] = suite_ok
sh('git checkout -- . && git clean -fdq')
good = res['builds'] and res['suite_passes_with'] and res['demo_fails_with'] and res['demo_passes_without']
res['confirmed'] = good
print(json.dumps({k: v for k, v in res.items() if k not in ('demo_with_output',)}, indent=None)[:900])
if store and good:
    dst = f'/verif/seeded/{prop}-{store_as}'
    os.makedirs(dst, exist_ok=True)
    shutil.copy(patch, dst + '/patch.diff')
    for d, ddir, _ in placed:
        shutil.copy(d, dst + '/' + os.path.basename(d) + '.txt')   # .txt so that the harness module never compiles them
    if os.path.exists(os.path.join(src, 'notes.md')): shutil.copy(os.path.join(src, 'notes.md'), dst + '/notes.md')
    meta = {'id': f'{prop}-{store_as}', 'breaks_property': prop, 'base_commit': subprocess.run('git -C /repo rev-parse --short HEAD', shell=True, capture_output=True, text=True).stdout.strip(),
            'demo_files': [{'file': os.path.basename(d) + '.txt', 'place_in': ddir, 'as': os.path.basename(d)} for d, ddir, _ in placed],
            'demo_tests': tests, 'confirmed': {'applies_at_base': True, 'builds': True, 'existing_suite_passes_with_change_2_runs': True, 'demo_fails_with_change': True, 'demo_passes_without_change': True},
            'what_i_ran': 'tools/seedverify.py in a scratch worktree of /repo (git apply --check; go build ./...; go test -vet=off -count=1 ./... twice with the change; the demo tests with and without the change)',
            'demo_failure_excerpt': res['demo_with_output'][-400:]}
    json.dump(meta, open(dst + '/meta.json', 'w'), indent=1)
    print('stored', dst)
sys.exit(0 if good else 1)
