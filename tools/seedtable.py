#!/usr/bin/env python3
"""Prints the markdown table of seeded changes for DESIGN.md from /verif/seeded/*/meta.json and RESULTS.tsv."""
import json, glob, os, csv
res = {}
if os.path.exists('/verif/seeded/RESULTS.tsv'):
    for row in csv.DictReader(open('/verif/seeded/RESULTS.tsv'), delimiter='\t'):
        res[row['seed']] = row
extra = {}
if os.path.exists('/verif/seeded/CROSS.tsv'):
    for row in csv.DictReader(open('/verif/seeded/CROSS.tsv'), delimiter='\t'):
        extra.setdefault(row['seed'], []).append(row)
print('| seeded change | breaks | needs, in order to manifest | caught by (quick tier) |')
print('|---|---|---|---|')
for mp in sorted(glob.glob('/verif/seeded/C*-m*/meta.json')):
    m = json.load(open(mp))
    r = res.get(m['id'])
    caught = '?'
    if r:
        caught = f"{r['check']}: `{r['first violation key'].rstrip(':')}`" if r['exit'] == '1' else f"**missed by {r['check']}** (exit {r['exit']})"
    for x in extra.get(m['id'], []):
        caught += f"; {x['check']}: `{x['first violation key'].rstrip(':')}`" if x['exit'] == '1' else f"; not by {x['check']}"
    print(f"| {m['id']} | {m['breaks_property']} | {m.get('needs_to_manifest','see notes.md')} | {caught} |")
