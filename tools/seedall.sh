#!/bin/sh
# Runs every stored seeded change against the check of the property it breaks (quick tier) and records the outcome.
# usage: seedall.sh [tier]     -> /verif/seeded/RESULTS.tsv
tier="${1:-quick}"
export VERIF_EVIDENCE_DIR=/tmp/verif-scratch-evidence
exec 9>/tmp/repo.lock; flock 9
# the checks run from a snapshot of /verif, so that /verif can be edited while the batch runs
snap=/tmp/verif-snap; rm -rf $snap; mkdir -p $snap
rsync -a --exclude .git --exclude .build --exclude evidence /verif/ $snap/
out=/verif/seeded/RESULTS.tsv
printf "seed\tcheck\ttier\texit\tfirst violation key\n" > $out
for d in /verif/seeded/C*-m*; do
  id=$(basename $d); prop=${id%%-*}
  cd /repo || exit 9
  git diff --quiet || { echo "repo dirty"; exit 9; }
  git apply $d/patch.diff || { printf "%s\t%s\t%s\tpatch-does-not-apply\t\n" $id $prop $tier >> $out; continue; }
  cd $snap && ./check $prop $tier > /tmp/seedall.log 2>&1; rc=$?
  key=$(grep -m1 '^violation ' /tmp/seedall.log | cut -d' ' -f2 | tr -d ':' | sed 's/^\(C[0-9]*\)/\1:/')
  printf "%s\t%s\t%s\t%s\t%s\n" $id $prop $tier $rc "$(grep -m1 '^violation ' /tmp/seedall.log | cut -d' ' -f2)" >> $out
  git -C /repo checkout -- .
done
cross=/verif/seeded/CROSS.tsv
printf "seed\tcheck\ttier\texit\tfirst violation key\n" > $cross
while read id prop; do
  [ -z "$id" ] && continue
  cd /repo && git apply /verif/seeded/$id/patch.diff || continue
  cd $snap && ./check $prop $tier > /tmp/seedall.log 2>&1; rc=$?
  printf "%s\t%s\t%s\t%s\t%s\n" $id $prop $tier $rc "$(grep -m1 '^violation ' /tmp/seedall.log | cut -d' ' -f2)" >> $cross
  git -C /repo checkout -- .
done < /verif/seeded/cross.txt
rm -rf $snap
cat $out $cross
