#!/usr/bin/env python3
"""Sensitivity runner: applies each listed one-line mutation to /repo, runs the named check (quick), restores /repo.
usage: mutrun.py [tsv] [filter-substring]"""
import subprocess, sys, os, time, fcntl
tsv = sys.argv[1] if len(sys.argv) > 1 else '/verif/tools/mutants.tsv'
flt = sys.argv[2] if len(sys.argv) > 2 else ''
env = dict(os.environ, VERIF_EVIDENCE_DIR='/tmp/verif-scratch-evidence', GOFLAGS='-mod=mod', GOPROXY='off', GOSUMDB='off', GOTOOLCHAIN='local')
for line in open(tsv):
    line = line.rstrip('\n')
    if not line or line.startswith('#'): continue
    pid, f, old, new = line.split('\t')
    if flt and flt not in line: continue
    old = old.replace('\\n', '\n').replace('\\t', '\t'); new = new.replace('\\n', '\n').replace('\\t', '\t')
    lk = open('/tmp/repo.lock', 'w'); fcntl.flock(lk, fcntl.LOCK_EX)
    if subprocess.run(['git', '-C', '/repo', 'diff', '--quiet']).returncode != 0:
        print('repo dirty'); sys.exit(9)
    p = os.path.join('/repo', f)
    s = open(p).read()
    if old not in s:
        print(f'{pid} {f}: PATTERN NOT FOUND: {old[:60]}'); continue
    open(p, 'w').write(s.replace(old, new, 1))
    try:
        b = subprocess.run(['go', 'build', './...'], cwd='/repo', env=env, capture_output=True, text=True)
        if b.returncode != 0:
            print(f'{pid} {f}: MUTANT DOES NOT COMPILE: {b.stderr[:200]}'); continue
        t0 = time.time()
        r = subprocess.run(['./check', pid, 'quick'], cwd='/verif', env=env, capture_output=True, text=True)
        v = [l for l in r.stdout.splitlines() if l.startswith('violation')]
        print(f'{pid} rc={r.returncode} {time.time()-t0:.0f}s  {old[:50]!r} -> {new[:50]!r} :: {(v[0][:160] if v else r.stdout[-200:])}', flush=True)
    finally:
        subprocess.run(['git', '-C', '/repo', 'checkout', '--', '.'])
        fcntl.flock(lk, fcntl.LOCK_UN); lk.close()
