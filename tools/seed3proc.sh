#!/bin/sh
# usage: seed3proc.sh Cxx [srcdir] [a b]  -- verify round-3 seeds m1,m2 of a property (stored as m5,m6 by default) and run its check against each
p="$1"; src="${2:-/tmp/seed3}"; a="${3:-m5}"; b="${4:-m6}"; cd /verif
for pair in "m1 $a" "m2 $b"; do set -- $pair
  python3 tools/seedverify.py $p $1 --store --src $src --as $2 2>&1 | tail -2 | cut -c1-400
  if [ -d /verif/seeded/$p-$2 ]; then echo "== $p-$2 vs $p"; tools/seedrun.sh /verif/seeded/$p-$2/patch.diff $p 2>&1 | grep -E "exit=|^violation|INCON|apply" | cut -c1-330; fi
done
