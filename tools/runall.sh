#!/bin/sh
# usage: runall.sh [quick|thorough] [parallelism]  -- runs every claimed check, prints one line each
tier="${1:-quick}"; par="${2:-4}"
cd /verif
ids=$(python3 -c "import json;print(' '.join(c['property_id'] for c in json.load(open('MANIFEST.json'))['checks']))")
mkdir -p .build/runall
echo $ids | tr ' ' '\n' | xargs -P "$par" -I{} sh -c './check {} '"$tier"' > .build/runall/{}.log 2>&1; echo "{} exit=$? $(tail -1 .build/runall/{}.log | cut -c1-160)"'
