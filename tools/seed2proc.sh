#!/bin/sh
# usage: seed2proc.sh Cxx  -- verify round-2 seeds m1,m2 of a property (stored as m3,m4) and run its check against each
p="$1"; cd /verif
for pair in "m1 m3" "m2 m4"; do set -- $pair
  python3 tools/seedverify.py $p $1 --store --src /tmp/seed2 --as $2 2>&1 | tail -2 | cut -c1-400
  if [ -d /verif/seeded/$p-$2 ]; then echo "== $p-$2 vs $p"; tools/seedrun.sh /verif/seeded/$p-$2/patch.diff $p 2>&1 | grep -E "exit=|^violation|INCON|apply" | cut -c1-330; fi
done
