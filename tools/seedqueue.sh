#!/bin/sh
# Sequentially processes round-2 seed sets named in /tmp/seed2/queue (one property id per line; END stops).
q=/tmp/seed2/queue; touch $q; n=0
while true; do
  total=$(wc -l < $q)
  if [ "$n" -lt "$total" ]; then
    n=$((n+1)); p=$(sed -n "${n}p" $q)
    [ "$p" = "END" ] && exit 0
    /verif/tools/seed2proc.sh $p >> /tmp/seed2/proc.log 2>&1
  else
    sleep 20
  fi
done
