#!/bin/sh
# usage: seedsome.sh Cxx [Cyy ...]  -- re-runs the stored seeded changes of the given properties (quick tier) and replaces their rows in seeded/RESULTS.tsv
export VERIF_EVIDENCE_DIR=/tmp/verif-scratch-evidence
exec 9>/tmp/repo.lock; flock 9
out=/verif/seeded/RESULTS.tsv
for prop in "$@"; do
  for d in /verif/seeded/$prop-m*; do
    id=$(basename $d)
    cd /repo || exit 9
    git diff --quiet || { echo "repo dirty"; exit 9; }
    git apply $d/patch.diff || continue
    cd /verif && ./check $prop quick > /tmp/seedsome.log 2>&1; rc=$?
    key=$(grep -m1 '^violation ' /tmp/seedsome.log | cut -d' ' -f2)
    git -C /repo checkout -- .
    grep -v "^$id	" $out > /tmp/results.tmp
    printf "%s\t%s\t%s\t%s\t%s\n" $id $prop quick $rc "$key" >> /tmp/results.tmp
    (head -1 /tmp/results.tmp; tail -n +2 /tmp/results.tmp | sort -t- -k1,1 -k2.2n) > $out
    echo "$id $rc $key"
  done
done
