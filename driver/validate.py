#!/usr/bin/env python3
import json, glob, sys, jsonschema
ok = True
jsonschema.validate(json.load(open('/verif/MANIFEST.json')), json.load(open('/root/.vp/MANIFEST.schema.json')))
es = json.load(open('/root/.vp/EVIDENCE.schema.json'))
for p in sorted(glob.glob('/verif/evidence/C*.json')):
    try:
        jsonschema.validate(json.load(open(p)), es)
    except Exception as e:
        ok = False
        print("INVALID", p, str(e)[:300])
print("schemas ok" if ok else "schema problems")
sys.exit(0 if ok else 1)
