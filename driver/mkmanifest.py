#!/usr/bin/env python3
"""Regenerates /verif/MANIFEST.json from the tables below and driver/props.py."""
import json, os, sys
sys.path.insert(0, os.path.dirname(os.path.abspath(__file__)))
from props import PROPS
from manifest_text import TEXT, HOOK_COMMITS

ROOT = os.path.dirname(os.path.dirname(os.path.abspath(__file__)))
ALL = [f"C{i:02d}" for i in range(1, 21)]

checks, na = [], []
for pid in ALL:
    if pid in PROPS and pid in TEXT:
        t = TEXT[pid]
        checks.append({
            "property_id": pid,
            "quick_cmd": f"./check {pid} quick",
            "thorough_cmd": f"./check {pid} thorough",
            "evidence_file": f"/verif/evidence/{pid}.json",
            "replay_cmd_template": f"./check {pid} --replay {{path}}",
            "engine": "rapid-harness",
            "level_claimed": {"category": PROPS[pid].get("level", "exploration"), "text": t["level"], "design_ref": t["ref"]},
            "level_note": t["note"],
            "technique": t["technique"],
        })
    else:
        na.append({"property_id": pid, "reason": "check under construction in this session; not claimed until its harness is committed and silent on the unchanged tree"})

m = {
    "version": 1,
    "setup_cmd": "./setup.sh",
    "hooks": {
        "guard": "verif",
        "enable": "go test -tags verif (the harness module replaces github.com/anacrolix/dht/v2 with /repo and builds it with -tags verif)",
        "baseline_off_cmd": "cd /repo && go test -vet=off -count=1 -timeout 25m ./...",
        "source_commits": HOOK_COMMITS,
        "add_only": True,
    },
    "engines": [{
        "name": "rapid-harness", "path": "/verif/harness",
        "serves_properties": [c["property_id"] for c in checks],
        "kind_free_text": "Go module using pgregory.net/rapid v1.3.0 (property-based / stateful generation with shrinking) and native go fuzzing, driven by /verif/driver/run.py; fake net.PacketConn, goroutine-stack quiescence barrier, independent reference models",
    }],
    "checks": checks,
    "not_applicable": na,
    "notes": "Every check: exit 0 held / exit 1 + VIOLATION line / exit 2 inconclusive (build failure, deadline). VERIF_SEED selects the rapid PRNG seed. See DESIGN.md.",
}
if not na:
    del m["not_applicable"]
with open(os.path.join(ROOT, "MANIFEST.json"), "w") as f:
    json.dump(m, f, indent=1)
print("claimed:", [c["property_id"] for c in checks])
