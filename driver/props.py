"""Per-property job tables: which sub-properties run, with how many cases per tier."""

def rapid(sub, quick, thorough, shards=8, **kw):
    d = {"sub": sub, "kind": "rapid", "quick": quick, "thorough": thorough, "shards": shards}
    d.update(kw)
    return d

PROPS = {
    "C01": {"jobs": [
        rapid("C01a", 800, 3000, shrinktime="15s", race_shards=1, timeout_thorough=5400),
        {"sub": "C01f", "kind": "fuzz", "run": "FuzzC01Datagram", "tiers": ["thorough"], "quick": 0, "thorough": 90},
    ]},
    "C02": {"jobs": [
        rapid("C02a", 4000, 20000, shards=6, race_shards=1, gomaxprocs=[16, 4, 1]),
        rapid("C02b", 2500, 10000, shards=4),
    ]},
    "C03": {"jobs": [
        rapid("C03a", 5000, 25000, shards=8, race_shards=2, gomaxprocs=[16, 4, 1, 2]),
        rapid("C03b", 60, 300, shards=2),
        rapid("C03c", 300, 2000, shards=2),
    ]},
    "C04": {"jobs": [
        rapid("C04a", 5000, 25000, shards=8, race_shards=1, gomaxprocs=[16, 4, 1]),
    ]},
    "C17": {"jobs": [
        rapid("C17a", 30000, 200000, shards=4),
        rapid("C17b", 3000, 20000, shards=4),
        {"sub": "C17x", "kind": "test", "run": "TestC17Exhaustive", "tiers": ["quick"], "env": {"VERIF_C17_SLICE": "3"}},
        {"sub": "C17x", "kind": "test", "run": "TestC17Exhaustive", "tiers": ["thorough"]},
    ]},
    "C18": {"jobs": [
        rapid("C18a", 15000, 100000, shards=4),
        rapid("C18b", 6000, 40000, shards=6),
        rapid("C18c", 4000, 20000, shards=6),
        {"sub": "C18x", "kind": "test", "run": "TestC18Exhaustive"},
    ]},
    "C05": {"jobs": [
        rapid("C05a", 1000, 2500, shrinktime="15s", race_shards=1),
    ]},
    "C06": {"jobs": [
        rapid("C06a", 1000, 2500, shrinktime="15s", race_shards=1),
    ]},
    "C09": {"jobs": [
        rapid("C09a", 1000, 2000, shrinktime="15s"),
    ]},
    "C07": {"jobs": [
        rapid("C07a", 2000, 5000, shrinktime="15s", race_shards=1),
        rapid("C07b", 16, 96, shards=8, shrinktime="10s"),
    ]},
    "C14": {"level": "fault_enumeration", "jobs": [
        {"sub": "C14a", "kind": "test", "run": "TestC14Grid"},
        rapid("C14a", 600, 3000, shrinktime="15s", race_shards=1),
    ]},
    "C16": {"jobs": [
        rapid("C16a", 1500, 6000, shrinktime="15s", race_shards=1),
    ]},
    "C08": {"jobs": [
        rapid("C08a", 1500, 6000, shrinktime="15s"),
        {"sub": "C08f", "kind": "fuzz", "run": "FuzzC08Datagram", "tiers": ["thorough"], "quick": 0, "thorough": 60},
    ]},
    "C10": {"jobs": [
        rapid("C10a", 1500, 6000, shrinktime="15s"),
    ]},
    "C11": {"jobs": [
        rapid("C11a", 1200, 5000, shrinktime="15s"),
    ]},
    "C12": {"jobs": [
        rapid("C12a", 1500, 6000, shrinktime="15s"),
        rapid("C12c", 2000, 8000, shrinktime="15s"),
    ]},
    "C13": {"jobs": [
        rapid("C13a", 1500, 6000, shrinktime="15s"),
        rapid("C13b", 1500, 8000, shrinktime="15s", race_shards=1, gomaxprocs=[16, 2]),
        rapid("C13c", 24, 80, shards=1),
    ]},
    "C19": {"jobs": [
        rapid("C19a", 800, 4000, shrinktime="15s"),
    ]},
    "C20": {"jobs": [
        rapid("C20a", 150, 800, shrinktime="15s", shards=8),
        rapid("C20b", 120, 800, shards=2),
        rapid("C20c", 24, 240, shards=4),
    ]},
    "C15": {"jobs": [
        rapid("C15a", 6000, 30000),
        rapid("C15b", 20000, 100000),
        rapid("C15c", 20000, 60000, shards=4),
        rapid("C15d", 10000, 40000, shards=2),
        rapid("C15e", 2000, 5000, shards=2),
        {"sub": "C15f", "kind": "fuzz", "run": "FuzzC15Decode", "tiers": ["thorough"], "quick": 0, "thorough": 90},
    ]},
}
