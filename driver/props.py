"""Per-property job tables: which sub-properties run, with how many cases per tier."""

def rapid(sub, quick, thorough, shards=8, **kw):
    d = {"sub": sub, "kind": "rapid", "quick": quick, "thorough": thorough, "shards": shards}
    d.update(kw)
    return d

PROPS = {
    "C08": {"jobs": [
        rapid("C08a", 1500, 6000, shrinktime="15s"),
    ]},
    "C15": {"jobs": [
        rapid("C15a", 6000, 30000),
        rapid("C15b", 20000, 100000),
        rapid("C15c", 20000, 60000, shards=4),
        rapid("C15d", 10000, 40000, shards=2),
        rapid("C15e", 2000, 5000, shards=2),
    ]},
}
