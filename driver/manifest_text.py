HOOK_COMMITS = ["f2f06c6"]

TEXT = {
 "C02": {
  "technique": "property-based testing (rapid) with a schedule-owning explorer: generated response graphs and completion orders against traversal.Operation, validity-predicate oracle over the harness's own record of who answered",
  "level": "Generated-input and generated-schedule search. DoQuery is a harness callback, so the check owns the completion order of the in-flight queries; response graphs include silent, lying, duplicate-ID and filtered nodes, and a second family builds truthful finite networks where the result must be exactly the K closest. Held on every generated (graph, schedule) pair; says nothing about pairs not generated.",
  "note": "Trusts the VerifSnapshot hook (outstanding count and the package's own haveQuery under the operation mutex) to decide that the operation has reacted to an event; interleavings of the operation's internal goroutines are sampled (repetition, -race shard), not enumerated.",
  "ref": "DESIGN.md section 4, C02",
 },
 "C03": {
  "technique": "property-based testing (rapid) with a schedule-owning explorer; liveness judged by a goroutine-state deadlock detector, stall safety by a reference model of learned/queried contacts",
  "level": "Generated schedules of query completion, late AddNodes and Stop. Liveness (stall is reported, Stop completes) is decided by 'every module goroutine is blocked and the awaited event has not happened', safety of each stall report by an independent model. A lost wake-up that needs one specific preemption inside the operation's critical sections can be missed.",
  "note": "Deadline hits with runnable goroutines are reported as inconclusive (exit 2), never as violations.",
  "ref": "DESIGN.md section 4, C03",
 },
 "C04": {
  "technique": "property-based testing (rapid) with adversarially biased response graphs (one address under many IDs, filtered addresses) and invariants asserted at every DoQuery entry",
  "level": "Generated adversarial response graphs and schedules; the invariants (<= Alpha in flight, once per address, never a filtered address, contexts cancelled at Stop) are checked at every query the lookup issues.",
  "note": "An address counts as rejected by the filter when every (address, ID) pair it was offered under fails the generated filter predicate.",
  "ref": "DESIGN.md section 4, C04",
 },
 "C08": {
  "technique": "property-based testing (rapid) over batches of inbound datagrams on a simulated socket; every outbound datagram attributed to its query after a quiescence barrier and judged against the KRPC reply rules",
  "level": "Generated batches of queries/non-queries of all methods, transaction IDs, argument shapes and source families in passive / hooked / peer-store configurations; the complete outbound traffic of the node is observed at the socket seam.",
  "note": "Trusts the quiescence barrier (serve loop parked, all module goroutines blocked, twice) for 'nothing else was sent'; missing replies are re-examined after a 2 s grace wait. Replies are parsed with the harness's own bencode reader.",
  "ref": "DESIGN.md section 4, C08",
 },
 "C17": {
  "technique": "property-based testing (rapid) against a bitwise CRC32-C reference of BEP 42, metamorphic relations, and exhaustive enumeration of the 2^20 x 8 masked IPv4 space in the thorough tier",
  "level": "Differential testing against an independent table-less CRC32-C implementation of the BEP 42 rule; the thorough tier enumerates every masked IPv4 value with every seed (8.4M cases), the quick tier one eighth of it; IPv6, v4-mapped and server configurations are sampled.",
  "note": "The reference model is written from the BEP text; IPv6 ULA addresses are not asserted either way.",
  "ref": "DESIGN.md section 4, C17",
 },
 "C18": {
  "technique": "property-based testing (rapid) of algebraic laws (metric, strict total order, set/k-nearest models) plus exhaustive enumeration of all 160 shared-prefix lengths",
  "level": "Law checking over structured ID triples, candidate sets with ties and unknown IDs (all pairs and triples of each generated set), container operation sequences against sorted-slice/set models, and all 160 prefix lengths x 160 buckets enumerated.",
  "note": "Uses in-package hooks for the unexported bucket-index and random-bucket-ID helpers.",
  "ref": "DESIGN.md section 4, C18",
 },

 "C10": {
  "technique": "property-based testing (rapid) of issue/use histories over a harness-controlled token clock; write tokens mutated bit-by-bit, truncated, extended, from another IP or another server; oracle is an independent acceptance window model (<=10 min must, >15 min must not)",
  "level": "Generated histories of token issue (genuine get/get_peers), clock advances on and around the 5-minute rotation grid (+-1 ns at the 10- and 15-minute bounds) and announce_peer/put uses from the same or other IPs and ports; replies and side effects (announce callback, AddPeer, store Put) are observed at the socket seam and through recording stores.",
  "note": "Uses the VerifSetTokenClock hook (sets the token server's existing, unexported time source); the real time.Now plumbing is exercised only at 'now'. Between 10 and 15 minutes either outcome is accepted if reply and side effect agree.",
  "ref": "DESIGN.md section 4, C10",
 },
 "C11": {
  "technique": "property-based testing (rapid), model-based: announce/get_peers histories against a reference map infohash -> source IP -> endpoint, every get_peers reply judged for soundness, completeness, BEP 32 entry sizes and token presence",
  "level": "Generated histories of accepted and rejected announces (port / implied_port / both) and get_peers with every want combination from IPv4, IPv6 and v4-mapped sources over several infohashes, against the bundled in-memory peer store behind the real wire handlers.",
  "note": "Cross-family conversion of values is permitted, not required; a want list naming neither n4 nor n6 leaves the wanted family open. Asynchronous AddPeer is covered by the quiescence barrier.",
  "ref": "DESIGN.md section 4, C11",
 },
 "C13": {
  "technique": "property-based testing (rapid): model-based sequential put/get histories against an independent BEP 44 acceptance rule; concurrent puts over a yielding store whose every Get/Put/Del is released by a generated schedule, judged by a validity predicate over the acknowledged puts; sound-by-construction expiry probe",
  "level": "Sequential histories (wire, Server.Put, store wrapper) with seq/CAS from dense and extreme ranges; all interleavings of 2..4 concurrent puts at the granularity of the underlying store's calls are sampled by generated schedules (the harness owns which parked store call proceeds); expiry with a real 25 ms Exp.",
  "note": "Interleavings finer than store calls (inside the wrapper's critical section) are owned by the Go scheduler; the thorough tier adds a -race shard as perturbation.",
  "ref": "DESIGN.md section 4, C13",
 },
 "C15": {
  "technique": "property-based testing (rapid): round-trip and fixpoint oracles over generated Msg values, mutated encodings and length-biased byte strings; native fuzzing in the thorough tier",
  "level": "Generated-input search: every run draws tens of thousands of krpc.Msg values over the full field set, byte-mutated encodings, KRPC-shaped dictionaries with mistyped fields, and byte strings with lengths around multiples of each compact entry size, and checks round-trip, re-encode fixpoint, exact-length acceptance and absence of panics. It shows the property on everything generated, not for all inputs.",
  "note": "Trusts the harness's normalisation (nil == empty lists; IPv4 contacts compared as addresses) and its tiny independent bencode writer/reader used to build inputs.",
  "ref": "DESIGN.md section 4, C15",
 },
}
