HOOK_COMMITS = []

TEXT = {
 "C15": {
  "technique": "property-based testing (rapid): round-trip and fixpoint oracles over generated Msg values, mutated encodings and length-biased byte strings; native fuzzing in the thorough tier",
  "level": "Generated-input search: every run draws tens of thousands of krpc.Msg values over the full field set, byte-mutated encodings, KRPC-shaped dictionaries with mistyped fields, and byte strings with lengths around multiples of each compact entry size, and checks round-trip, re-encode fixpoint, exact-length acceptance and absence of panics. It shows the property on everything generated, not for all inputs.",
  "note": "Trusts the harness's normalisation (nil == empty lists; IPv4 contacts compared as addresses) and its tiny independent bencode writer/reader used to build inputs.",
  "ref": "DESIGN.md section 4, C15",
 },
}
