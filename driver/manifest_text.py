HOOK_COMMITS = ["f2f06c6", "5776d68"]

TEXT = {
 "C02": {
  "technique": "property-based testing (rapid) with a schedule-owning explorer: generated response graphs and completion orders against traversal.Operation, validity-predicate oracle over the harness's own record of who answered",
  "level": "Generated-input and generated-schedule search. DoQuery is a harness callback, so the check owns the completion order of the in-flight queries; response graphs include silent, lying, duplicate-ID and filtered nodes, and a second family builds truthful finite networks where the result must be exactly the K closest. Held on every generated (graph, schedule) pair; says nothing about pairs not generated.",
  "note": "Trusts the VerifSnapshot hook (outstanding count and the package's own haveQuery under the operation mutex) to decide that the operation has reacted to an event; interleavings of the operation's internal goroutines are sampled (repetition, -race shard), not enumerated.",
  "ref": "DESIGN.md section 4, C02",
 },
 "C03": {
  "technique": "property-based testing (rapid) with a schedule-owning explorer; liveness judged by a goroutine-state deadlock detector, stall safety by a reference model of learned/queried contacts",
  "level": "Generated schedules of query completion, late AddNodes and Stop. Liveness (stall is reported, Stop completes) is decided by 'every module goroutine is blocked and the awaited event has not happened', safety of each stall report by an independent model. A lost wake-up that needs one specific preemption inside the operation's critical sections can be missed, except at the one preemption point the harness owns through a hook (run loop between unlock and select): sub-property C03b places AddNodes there, C03c places the last query completions there. Response graphs include chains of 20..60 progressively closer nodes padded with far contacts and graphs of up to 300 addresses, so that the backlog of unasked contacts reaches hundreds.",
  "note": "Deadline hits with runnable goroutines are reported as inconclusive (exit 2), never as violations. C03c takes 3 s of silence with every library goroutine blocked as 'no stall report will ever come'. C03b uses the VerifBeforeSelect hook to hold the run loop between releasing its lock and its select; the stale stall report this exposes is a genuine defect recorded as an open known finding (C03:stale-stall-after-addnodes), printed as KNOWN-FINDING and not counted as a violation.",
  "ref": "DESIGN.md section 4, C03",
 },
 "C04": {
  "technique": "property-based testing (rapid) with adversarially biased response graphs (one address under many IDs, filtered addresses) and invariants asserted at every DoQuery entry",
  "level": "Generated adversarial response graphs and schedules; the invariants (<= Alpha in flight, once per address, never a filtered address, contexts cancelled at Stop) are checked at every query the lookup issues.",
  "note": "An address counts as rejected by the filter when every (address, ID) pair it was offered under fails the generated filter predicate.",
  "ref": "DESIGN.md section 4, C04",
 },
 "C08": {
  "technique": "property-based testing (rapid) over batches of inbound datagrams on a simulated socket; every outbound datagram attributed to its query after a quiescence barrier and judged against the KRPC reply rules",
  "level": "Generated batches of queries/non-queries of all methods, transaction IDs, argument shapes and source families in passive / hooked / peer-store configurations, including senders already in the routing table (under either byte form of their IPv4 address), senders claiming the node's own, neighbouring or zero ID, and messages that carry the transaction ID of a query the node itself has outstanding to that very address; the complete outbound traffic of the node is observed at the socket seam.",
  "note": "Trusts the quiescence barrier (serve loop parked, all module goroutines blocked, twice) for 'nothing else was sent'; missing replies are re-examined after a 2 s grace wait. Replies are parsed with the harness's own bencode reader.",
  "ref": "DESIGN.md section 4, C08",
 },
 "C17": {
  "technique": "property-based testing (rapid) against a bitwise CRC32-C reference of BEP 42, metamorphic relations, and exhaustive enumeration of the 2^20 x 8 masked IPv4 space in the thorough tier",
  "level": "Differential testing against an independent table-less CRC32-C implementation of the BEP 42 rule; the thorough tier enumerates every masked IPv4 value with every seed (8.4M cases), the quick tier one eighth of it; IPv6, v4-mapped and server configurations are sampled.",
  "note": "The reference model is written from the BEP text; IPv6 ULA addresses are not asserted either way.",
  "ref": "DESIGN.md section 4, C17",
 },
 "C18": {
  "technique": "property-based testing (rapid) of algebraic laws (metric, strict total order, set/k-nearest models) plus exhaustive enumeration of all 160 shared-prefix lengths",
  "level": "Law checking over structured ID triples, candidate sets with ties and unknown IDs (all pairs and triples of each generated set), container operation sequences against sorted-slice/set models (every value of a K-nearest push sequence is kept and re-checked later, and forks push further elements starting from earlier values), and all 160 prefix lengths x 160 buckets enumerated.",
  "note": "Uses in-package hooks for the unexported bucket-index and random-bucket-ID helpers.",
  "ref": "DESIGN.md section 4, C18",
 },

 "C01": {
  "technique": "property-based testing (rapid) of hostile datagram sequences against a live node with operations in flight, plus native coverage-guided fuzzing of a byte-level datagram target in the thorough tier; crash triage by write-ahead journal and cross-process delta debugging; liveness by a goroutine-state deadlock detector and a probe ping",
  "level": "Generated sequences of raw, malformed-bencode, mutated-valid and wrongly typed KRPC datagrams and adversarial replies (every response field independently absent / valid / malformed) to the node's own live queries, across configurations (peer store, BEP 42 enforcement, passive, query hook, socket kind) and in-flight operations (ping, bootstrap, announce variants, BEP 44 get/put). Shows absence of crash, wedge and silence on everything generated.",
  "note": "Which of the operation's queries are live when a hostile reply is built depends on timing (25 ms real waits), so the exact sequence of a failing case may not replay identically; the journal keeps the concrete case. Process death is detected by the driver from the Go trace and counted only when the panicking frames are in the module under test.",
  "ref": "DESIGN.md section 4, C01",
 },
 "C05": {
  "technique": "property-based testing (rapid), stateful: generated histories of table events with IDs crafted to collide in chosen buckets; structural invariants and API agreement checked after every step against an independent bit-scan / BEP 5 classification",
  "level": "Generated histories (inbound queries, answered / unanswered / mismatched pings and find_nodes, unsolicited responses, AddNode, ageing, questionable pings, a TableMaintainer pass) over peers crafted to fill and overflow 1-2 buckets; the invariants are evaluated on a snapshot of the real table after every step.",
  "note": "Uses the VerifTable / VerifAge / VerifQuestionablePing hooks; ageing shifts the stored timestamps by whole minutes, which is observationally the same as waiting. Held on every generated history only.",
  "ref": "DESIGN.md section 4, C05",
 },
 "C06": {
  "technique": "property-based testing (rapid), stateful: the same table histories (with blocklists, read-only senders, BEP 42 secure/insecure IDs, bucket floods), each step judged by transition rules between the table snapshots before and after it, derived from the harness's own record of delivered datagrams",
  "level": "Every admission and every eviction in every generated step is justified or reported: admission only for an eligible direct sender / matched responder / AddNode argument, eviction only of bad or never-answered-while-a-responder-arrives entries and never of a good one, admission complete when the bucket has room, liveness evidence changed only by messages from that contact.",
  "note": "During the TableMaintainer pass several events fall into one step: completeness and per-event attribution are relaxed there, the justification rules are not.",
  "ref": "DESIGN.md section 4, C06",
 },
 "C07": {
  "technique": "property-based testing (rapid) with a harness-owned schedule: outbound queries (some with their send parked inside the socket write) interleaved with marked near-miss and matching datagrams, cancellations and releases; a reference model decides after every event which queries must have returned and with which datagram",
  "level": "Generated sets of concurrently outstanding queries to colliding destinations (same IP other port, same port other IP, IPv4 / v4-mapped / IPv6) and streams of correct, wrong-address, adjacent-transaction-ID, duplicated and replayed datagrams; a quiescence barrier after every event makes the comparison with the model exact. Sub-property C07b adds long histories: 1..3 queries held outstanding while bursts of up to 70000 later queries (past every 1- and 2-byte boundary of the process-wide transaction counter) are issued and answered, then the held ones receive their own marked replies.",
  "note": "All queries run with a one-hour virtual resend delay so that no time-out races the stream; time-out behaviour is C14's. A panic raised inside the library on the check's own goroutine (e.g. a duplicate transaction key) is reported as a violation (api-call-panicked).",
  "ref": "DESIGN.md section 4, C07",
 },
 "C09": {
  "technique": "property-based testing (rapid), stateful: generated tables mixing good / questionable / bad, IPv4 / IPv6 entries, probed with find_node / get_peers / get for crafted targets and every want list; each reply judged against the table snapshot, an independent BEP 5 classification and the harness's record of who answered",
  "level": "Soundness (only good, answered, family-matching, distinct, <= 8 contacts, never the responder) and the bucket-order / completeness clauses are checked on every probe reply (each probe repeated 4 times because the choice within the last bucket depends on map iteration). Histories include read-only queries from known contacts, the node's own find_node calls as liveness evidence, probes sent from the address and under the ID of a table entry, and - with the bundled peer store in a third of the histories - a peer of one family announcing itself for the probed infohash first.",
  "note": "The method's other ID field is set to a different value in half the probes so that using the wrong field is visible; completeness for get_peers applies whenever the reply carries no `values` (a reply with peers need not carry contacts as well).",
  "ref": "DESIGN.md section 4, C09",
 },
 "C12": {
  "technique": "property-based testing (rapid): put/get histories with items drawn around the size limits and signatures valid for a different field tuple, judged by an independent ed25519 + canonical-buffer implementation; client-side getput.Get against simulated nodes with genuine / forged / incomplete replies",
  "level": "Acceptance <=> validity, applicable error codes, untouched store on rejection, and re-verification of everything served, through the wire, the store wrapper and Server.Put; on the client side the returned value must verify for the requested target and carry the highest seq among the verifying replies delivered.",
  "note": "Sequence numbers increase along each history so that C13's rules never interfere; immutable puts carry seq 0.",
  "ref": "DESIGN.md section 4, C12",
 },
 "C14": {
  "technique": "fault-placement enumeration plus property-based sampling (rapid): the complete grid operation x fault x position is enumerated with exact (not timed) placements at the socket-write and resend-delay callbacks; random cells and fault combinations are drawn on top; cleanup judged by pending-transaction count and a goroutine census",
  "level": "Every cell of the grid {Query NumTries 1..4, Ping} x {reply in send i, reply in final wait, reply after time-out, cancel in send i / wait i / final wait, write error on send i, Close in wait i, after Close} and {Bootstrap, Announce, getput.Get, getput.Put, TableMaintainer pass} x {none, no starting nodes, resolver error, silence, write error / Close / cancel at the k-th write, after Close} is executed (repeated on one server); timing inside a placement is the Go scheduler's. Random cells add: traversal operations with the lookup's run loop held (VerifBeforeSelect hook) on every pass until everything else in the node has settled, so that every completion of a pass lands between the loop's unlock and its select; and queries over a send limiter with burst 0..NumTries and no refill, whose next send waits for budget while the reply arrives / the context is cancelled / another exempt query runs / Stats is called.",
  "note": "Time-outs are virtual (resend-delay callback returns 0 or one hour); in the Close cells answered queries wait 40 ms of real time because a reply queued before Close is never read.",
  "ref": "DESIGN.md section 4, C14",
 },
 "C16": {
  "technique": "property-based testing (rapid): Announce / AnnounceTraversal over generated simulated networks (distinct / empty / missing / non-string tokens, lying IDs, values, errors, silence) with Close / StopTraversing injected at generated points; every announce_peer on the wire and every delivery on the peers channel judged against the harness's own record",
  "level": "Token, infohash and port fidelity of every announce_peer, membership of its destination among the 8 closest token-bearing responders, exactly-once delivery of get_peers responses (at-most-once when a stop raced them), channel closure and Finished() after the last exchange.",
  "note": "Replies are delivered synchronously with the query, so reply order follows query order except for the injected stop; arbitrary completion orders of the underlying lookup are explored by C02-C04.",
  "ref": "DESIGN.md section 4, C16",
 },
 "C19": {
  "technique": "property-based testing (rapid): histories over every inbound and outbound path with generated blocklists (single addresses, spans, /24s, an IPv6 /64; harness ranger and the library's own list) installed at construction or at generated quiescent points, including while a query to the newly blocked address is outstanding; all writes judged against the list in force",
  "level": "No datagram to a covered address, no effect of a datagram from one (no write, table change, stored data, callback or completed query), no reply from a passive node and ro=1 on exactly the passive node's queries, over inbound queries / responses / errors, direct API queries, four kinds of traversal, AddNode + questionable pings and a TableMaintainer pass.",
  "note": "Lists change only when the node is quiescent, so 'the list in force when the write began' is well defined.",
  "ref": "DESIGN.md section 4, C19",
 },
 "C20": {
  "technique": "property-based testing (rapid): generated limiter settings, spoofed-source floods and concurrent outbound queries with every rate-limiting policy and failing socket writes; the send budget is checked with a prefix bound that real-time scheduling delay cannot falsify",
  "level": "For every generated run: the k-th rated datagram is written no earlier than burst + rate x elapsed allows, counted from the limiter's creation and again from a quiescent instant that follows a prelude of a few answered queries and a pause long enough to refill the limiter completely; with a non-refilling limiter at most `burst` rated datagrams ever; no query exceeds NumTries; all calls return. In a quarter of the runs the socket reports every n-th rated datagram as written one byte short with no error.",
  "note": "Uses real time (the limiter is golang.org/x/time/rate); only one-sided prefix inequalities are asserted, each from an instant at which no goroutine is between taking a token and writing (creation, or a quiescence barrier with wait-to-reply off). Sliding windows over observed times are deliberately not used. Sub-property C20c makes sends overtake each other between entering the send path and reaching the limiter (a slow user-supplied blocklist lookup for every other destination, a steady stream of rated non-waiting queries) and applies the same bound. Sub-property C20b places one exact history (a refused write's token refund followed by the cancellation of a send that waits for budget) and shows a genuine defect recorded as an open known finding (C20:refund-then-cancelled-wait-overcredits: one datagram over budget per such pair); C20a files an excess of at most the number of refused rated writes of the run under that key, printed as KNOWN-FINDING and not counted as a violation.",
  "ref": "DESIGN.md section 4, C20",
 },
 "C10": {
  "technique": "property-based testing (rapid) of issue/use histories over a harness-controlled token clock; write tokens mutated bit-by-bit, truncated, extended, from another IP or another server; oracle is an independent acceptance window model (<=10 min must, >15 min must not)",
  "level": "Generated histories of token issue (genuine get/get_peers), clock advances on and around the 5-minute rotation grid (+-1 ns at the 10- and 15-minute bounds) and announce_peer/put uses from the same or other IPs and ports - the IP pool includes addresses one bit or byte away from another and, on dual-stack sockets, the same four bytes placed in an address of the other family (aabb:ccdd::, ::a.b.c.d, 2002:aabb:ccdd::, 64:ff9b::a.b.c.d), and writes that are defective in another way as well (put without seq / without v / oversized / bad signature, announce_peer without info_hash / port) - ; replies and side effects (announce callback, AddPeer, store Put) are observed at the socket seam and through recording stores.",
  "note": "Uses the VerifSetTokenClock hook (sets the token server's existing, unexported time source); the real time.Now plumbing is exercised only at 'now'. Between 10 and 15 minutes either outcome is accepted if reply and side effect agree.",
  "ref": "DESIGN.md section 4, C10",
 },
 "C11": {
  "technique": "property-based testing (rapid), model-based: announce/get_peers histories against a reference map infohash -> source IP -> endpoint, every get_peers reply judged for soundness, completeness, BEP 32 entry sizes and token presence",
  "level": "Generated histories of accepted and rejected announces (port / implied_port / both) and get_peers with every want combination from IPv4, IPv6 and v4-mapped sources over up to 6 infohashes, against the bundled in-memory peer store behind the real wire handlers; bursts of 2..6 get_peers (different infohashes and wants) and of announces from distinct IPs for one (often new) infohash are injected back to back so that their replies and store updates are in flight together.",
  "note": "Cross-family conversion of values is permitted, not required; a want list naming neither n4 nor n6 leaves the wanted family open. Asynchronous AddPeer is covered by the quiescence barrier.",
  "ref": "DESIGN.md section 4, C11",
 },
 "C13": {
  "technique": "property-based testing (rapid): model-based sequential put/get histories against an independent BEP 44 acceptance rule; concurrent puts over a yielding store whose every Get/Put/Del is released by a generated schedule, judged by a validity predicate over the acknowledged puts; sound-by-construction expiry probe",
  "level": "Sequential histories (wire, Server.Put, store wrapper) with seq/CAS from dense and extreme ranges; all interleavings of 2..4 concurrent puts at the granularity of the underlying store's calls are sampled by generated schedules (the harness owns which parked store call proceeds); expiry with a real 25 ms Exp.",
  "note": "Interleavings finer than store calls (inside the wrapper's critical section) are owned by the Go scheduler; the thorough tier adds a -race shard as perturbation.",
  "ref": "DESIGN.md section 4, C13",
 },
 "C15": {
  "technique": "property-based testing (rapid): round-trip and fixpoint oracles over generated Msg values, mutated encodings and length-biased byte strings; native fuzzing in the thorough tier",
  "level": "Generated-input search: every run draws tens of thousands of krpc.Msg values over the full field set, byte-mutated encodings, KRPC-shaped dictionaries with mistyped fields, and byte strings with lengths around multiples of each compact entry size, and checks round-trip, re-encode fixpoint, exact-length acceptance and absence of panics. It shows the property on everything generated, not for all inputs.",
  "note": "Trusts the harness's normalisation (nil == empty lists; IPv4 contacts compared as addresses) and its tiny independent bencode writer/reader used to build inputs.",
  "ref": "DESIGN.md section 4, C15",
 },
}
