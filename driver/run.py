#!/usr/bin/env python3
"""Driver for the property checks.

  ./check <ID> quick|thorough          run the check, write evidence/<ID>.json
  ./check <ID> --replay <file>         re-run one saved scenario (bypasses the PBT library)

Exit codes: 0 held on everything explored; 1 a `VIOLATION property=<id> replay=<path>` line was
printed; 2 the check could not decide (build failure, harness failure, deadline).
"""
import glob
import hashlib
import json
import os
import re
import shutil
import subprocess
import sys
import time
from concurrent.futures import ThreadPoolExecutor

ROOT = os.path.dirname(os.path.dirname(os.path.abspath(__file__)))
HARNESS = os.path.join(ROOT, "harness")
sys.path.insert(0, os.path.dirname(os.path.abspath(__file__)))
from props import PROPS  # noqa: E402

MOD = "github.com/anacrolix/dht/v2"


def goenv():
    env = dict(os.environ)
    env.update({
        "GOFLAGS": "-mod=mod", "GOPROXY": "off", "GOSUMDB": "off", "GOTOOLCHAIN": "local",
        "VERIF_KNOWN": os.path.join(ROOT, "known_findings.json"),
    })
    return env


def log(*a):
    print(*a, flush=True)


def build(pid, race=False):
    """Build the test binary from /repo's current working tree (module replace => /repo)."""
    out = os.path.join(ROOT, ".build", pid, "props.race.test" if race else "props.test")
    os.makedirs(os.path.dirname(out), exist_ok=True)
    cmd = ["go", "test", "-c", "-tags", "verif", "-vet=off", "-o", out]
    if race:
        cmd.append("-race")
    cmd.append("./props")
    t0 = time.time()
    p = subprocess.run(cmd, cwd=HARNESS, env=goenv(), stdout=subprocess.PIPE, stderr=subprocess.STDOUT, text=True)
    if p.returncode != 0:
        log("BUILD FAILED (exit 2):")
        log(p.stdout[-6000:])
        return None
    log(f"built {os.path.relpath(out, ROOT)} in {time.time() - t0:.1f}s")
    return out


def seed_for(verif_seed, sub, shard):
    h = int(hashlib.sha256(sub.encode()).hexdigest()[:8], 16)
    return 1 + (verif_seed * 1000003 + shard * 7919 + h) % (2**62)


class Job:
    def __init__(self, pid, spec, tier, verif_seed, shard=0, race=False):
        self.pid, self.spec, self.tier, self.shard, self.race = pid, spec, tier, shard, race
        self.sub = spec["sub"]
        self.kind = spec.get("kind", "rapid")
        self.name = f"{self.sub}.{shard}" + (".race" if race else "") + ("" if self.kind == "rapid" else "." + self.kind)
        self.dir = os.path.join(ROOT, ".build", pid, "jobs", self.name)
        self.seed = seed_for(verif_seed, self.sub, shard)
        self.checks = None
        self.rc = None
        self.output = ""
        self.frag = None
        self.timed_out = False
        self.wall = 0.0
        self.note = None

    def run(self, binary):
        shutil.rmtree(self.dir, ignore_errors=True)
        os.makedirs(self.dir, exist_ok=True)
        env = goenv()
        env["VERIF_OUT"] = os.path.join(self.dir, "frag.json")
        env["VERIF_JOURNAL"] = self.dir
        env["VERIF_TIER"] = self.tier
        env["VERIF_SEED_EFF"] = str(self.seed)
        env.update(self.spec.get("env", {}))
        gmp = self.spec.get("gomaxprocs")
        if gmp and self.tier == "thorough":
            # schedule perturbation: shards of one sub-property run with different numbers of Ps
            env["GOMAXPROCS"] = str(gmp[self.shard % len(gmp)])
        if self.race:
            env["GORACE"] = "halt_on_error=0 exitcode=0"
        spec = self.spec
        limit = spec.get("timeout_" + self.tier, 900 if self.tier == "quick" else 3000)
        if self.kind == "rapid":
            env["VERIF_SUB"] = self.sub
            self.checks = spec[self.tier]
            if self.race:
                # the race detector slows these executors 10-20x: a race shard runs fewer cases
                self.checks = max(spec["quick"] // 2, spec[self.tier] // 10)
            cmd = [binary, "-test.run", "^TestProp$", "-test.timeout", "0", "-rapid.nofailfile",
                   f"-rapid.checks={self.checks}", f"-rapid.seed={self.seed}",
                   f"-rapid.shrinktime={spec.get('shrinktime', '20s')}"]
            if "steps" in spec:
                cmd.append(f"-rapid.steps={spec['steps']}")
        elif self.kind == "test":
            cmd = [binary, "-test.run", "^" + spec["run"] + "$", "-test.timeout", "0", "-test.v"]
        elif self.kind == "fuzz":
            # native coverage-guided fuzzing needs `go test`, not a prebuilt binary
            secs = spec[self.tier]
            corpus = os.path.join(self.dir, "fuzzcache")
            cmd = ["go", "test", "-tags", "verif", "-vet=off", "./props", "-run", "^$", "-fuzz", "^" + spec["run"] + "$",
                   f"-fuzztime={secs}s", "-test.fuzzcachedir=" + corpus, "-parallel", str(spec.get("parallel", 8))]
        else:
            raise SystemExit(f"unknown job kind {self.kind}")
        t0 = time.time()
        try:
            p = subprocess.run(cmd, cwd=os.path.join(HARNESS, "props") if self.kind != "fuzz" else HARNESS,
                               env=env, stdout=subprocess.PIPE, stderr=subprocess.STDOUT, timeout=limit)
            self.rc = p.returncode
            self.output = p.stdout.decode("utf-8", "replace")
        except subprocess.TimeoutExpired as e:
            self.timed_out = True
            self.rc = -1
            self.output = (e.stdout or b"").decode("utf-8", "replace")
        self.wall = time.time() - t0
        try:
            with open(env["VERIF_OUT"]) as f:
                self.frag = json.load(f)
        except Exception:
            self.frag = None
        return self


PANIC_RE = re.compile(r"^(panic:|fatal error:|unexpected fault address|SIGSEGV)", re.M)


def dht_frames(output):
    """Does the crash trace contain frames of the module under test (beyond harness callbacks)?"""
    m = PANIC_RE.search(output)
    if not m:
        return False
    trace = output[m.start():]
    first = trace.split("\n\n")[0:2]
    head = "\n\n".join(first)
    return MOD in head or "/repo/" in head


def evidence_dir():
    # seeded-change and mutant runs set VERIF_EVIDENCE_DIR so that they do not overwrite the evidence of the unchanged tree
    return os.environ.get("VERIF_EVIDENCE_DIR") or os.path.join(ROOT, "evidence")


def save_replay(pid, rec):
    d = os.path.join(evidence_dir(), "replays")
    os.makedirs(d, exist_ok=True)
    body = json.dumps(rec, sort_keys=True)
    digest = hashlib.sha256(body.encode()).hexdigest()[:12]
    path = os.path.join(d, f"{pid}-{rec.get('sub', pid)}-{digest}.json")
    with open(path, "w") as f:
        f.write(body)
    return path


def run_replay(binary, path, timeout=300):
    env = goenv()
    env["VERIF_REPLAY"] = path
    try:
        p = subprocess.run([binary, "-test.run", "^TestReplay$", "-test.timeout", "0", "-test.v"],
                           cwd=os.path.join(HARNESS, "props"), env=env, stdout=subprocess.PIPE, stderr=subprocess.STDOUT,
                           timeout=timeout)
        return p.returncode, p.stdout.decode("utf-8", "replace")
    except subprocess.TimeoutExpired as e:
        return -1, (e.stdout or b"").decode("utf-8", "replace") + "\n[replay timed out]"


def _list_paths(x, path=()):
    """Yield paths to every list inside a JSON value, outermost first."""
    if isinstance(x, list):
        yield path
        for i, e in enumerate(x):
            yield from _list_paths(e, path + (i,))
    elif isinstance(x, dict):
        for k in sorted(x):
            yield from _list_paths(x[k], path + (k,))


def _get(x, path):
    for p in path:
        x = x[p]
    return x


def _with(x, path, new):
    if not path:
        return new
    if isinstance(x, list):
        c = list(x)
    else:
        c = dict(x)
    c[path[0]] = _with(x[path[0]], path[1:], new)
    return c


def shrink_crash(pid, binary, rec, budget=120, per_trial=60):
    """Cross-process delta debugging for scenarios that kill the test process: delete list elements
    anywhere in the scenario while the replay still dies inside the module under test."""
    sc = rec.get("scenario")
    if sc is None:
        return rec
    tmp = os.path.join(ROOT, ".build", pid, "shrink.json")
    trials = [0]

    def dies(candidate):
        trials[0] += 1
        with open(tmp, "w") as f:
            json.dump({"sub": rec["sub"], "scenario": candidate}, f)
        rc, out = run_replay(binary, tmp, timeout=per_trial)
        return rc != 0 and dht_frames(out)

    if not dies(sc):
        rec["shrink_note"] = "did not reproduce when replayed alone; kept un-shrunk"
        return rec
    progress = True
    while progress and trials[0] < budget:
        progress = False
        for path in list(_list_paths(sc)):
            try:
                lst = _get(sc, path)
            except (KeyError, IndexError, TypeError):
                continue
            if not isinstance(lst, list) or not lst:
                continue
            chunk = len(lst)
            while chunk >= 1 and trials[0] < budget:
                i = 0
                while i < len(lst) and trials[0] < budget:
                    cand_list = lst[:i] + lst[i + chunk:]
                    cand = _with(sc, path, cand_list)
                    if dies(cand):
                        sc, lst, progress = cand, cand_list, True
                    else:
                        i += chunk
                chunk //= 2
    rec["scenario"] = sc
    rec["shrink_note"] = f"cross-process ddmin, {trials[0]} trials"
    return rec


def triage(pid, job, binary):
    """Returns (violations, broken_reason). violations = list of (key, msg, replay_path)."""
    out = job.output
    viols = []
    if job.timed_out:
        return viols, f"job {job.name} exceeded its wall-clock limit"
    frag_viol = (job.frag or {}).get("violations") or []
    if job.rc == 0:
        if job.kind == "rapid":
            m = re.search(r"OK, passed (\d+) tests", out)
            # rapid prints this only with -v; rely on the fragment instead
            ev = (job.frag or {}).get("evaluations", 0)
            if job.frag is None:
                return viols, f"job {job.name} wrote no evidence fragment"
            if ev < job.checks:
                return viols, f"job {job.name} ran {ev} < {job.checks} cases"
            inc = (job.frag or {}).get("inconclusive", 0)
            if inc > max(3, ev // 20):
                why = "; ".join(((job.frag or {}).get("inconclusive_why") or [])[:2])
                return viols, f"job {job.name}: {inc} of {ev} cases were inconclusive ({why})"
        return viols, None
    # non-zero exit
    if job.race and "race detected during execution of test" in out and not frag_viol and not PANIC_RE.search(out) \
            and re.search(r"OK, passed \d+ tests", out) and "VIOLATION-CANDIDATE" not in out:
        # the race detector's own verdict fails the test binary; race shards are a schedule perturbation only
        ev = (job.frag or {}).get("evaluations", 0)
        if job.frag is not None and ev >= job.checks:
            return viols, None
    if "INCONCLUSIVE-ABORT" in out:
        why = "; ".join(((job.frag or {}).get("inconclusive_why") or [])[:2])
        return viols, f"job {job.name}: abandoned, most cases were inconclusive ({why})"
    if frag_viol:
        for rec in frag_viol:
            path = save_replay(pid, rec)
            viols.append((rec["key"], rec["msg"], path))
        return viols, None
    if PANIC_RE.search(out):
        if "test timed out" in out:
            return viols, f"job {job.name}: go test deadline"
        cur = os.path.join(job.dir, "current.json")
        rec = {"sub": job.sub, "key": pid + ":process-death", "msg": "the test process died: " + PANIC_RE.search(out).group(0)}
        try:
            with open(cur) as f:
                j = json.load(f)
            rec["sub"] = j.get("sub", job.sub)
            rec["scenario"] = j.get("scenario")
        except Exception:
            rec["scenario"] = None
        m = PANIC_RE.search(out)
        rec["trace"] = out[m.start():m.start() + 6000].splitlines()
        if dht_frames(out):
            rec = shrink_crash(pid, binary, rec)
            path = save_replay(pid, rec)
            viols.append((rec["key"], rec["msg"] + " | " + out[m.start():m.start() + 300].replace("\n", " | "), path))
            return viols, None
        return viols, f"job {job.name}: harness crashed:\n" + out[m.start():m.start() + 3000]
    # native fuzz failure: crasher saved under testdata/fuzz
    m = re.search(r"Failing input written to (\S+)", out)
    if m:
        src = os.path.join(HARNESS, "props", m.group(1))
        rec = {"sub": job.sub, "key": pid + ":fuzz-crasher", "msg": "native fuzzing found a failing input", "fuzz_target": job.spec["run"]}
        try:
            rec["fuzz_input"] = open(src).read()
        except Exception:
            pass
        rec["trace"] = out[-4000:].splitlines()
        # A fuzz worker that is starved or killed is reported by the coordinator like a crasher ("hung or
        # terminated unexpectedly"). The saved input is the reproducible unit: it is re-run three times in a
        # fresh process; a crasher that never reproduces and left no panic trace of the module is noted, not reported.
        reproduced = False
        if os.path.exists(src):
            name = job.spec["run"] + "/" + os.path.basename(src)
            for _ in range(3):
                p = subprocess.run(["go", "test", "-tags", "verif", "-vet=off", "./props", "-run", "^" + name + "$"], cwd=HARNESS, env=goenv(),
                                   stdout=subprocess.PIPE, stderr=subprocess.STDOUT, text=True, errors="replace")
                if p.returncode != 0:
                    reproduced = True
                    rec["trace"] = p.stdout[-4000:].splitlines()
                    break
            try:
                os.remove(src)
            except Exception:
                pass
        if reproduced or dht_frames(out) or "VIOLATION-CANDIDATE" in out:
            path = save_replay(pid, rec)
            viols.append((rec["key"], rec["msg"], path))
            return viols, None
        job.note = "native fuzzing reported a failing input that passes when re-run (3x) and left no panic trace of the module: a starved or killed fuzz worker; input kept in the evidence notes"
        job.rc = 0
        return viols, None
    return viols, f"job {job.name} failed without a recognisable verdict (rc={job.rc}):\n" + out[-3000:]


def merge_evidence(pid, tier, verif_seed, jobs, nviol, wall, level, known_lines, notes):
    evaluations = 0
    digests = set()
    nontrivial_total = 0
    rules, assumptions, samples = [], [], []
    labels = {}
    subs = {}
    inconclusive = 0
    extra = {}
    for j in jobs:
        f = j.frag
        if not f:
            continue
        evaluations += f.get("evaluations", 0)
        nontrivial_total += f.get("nontrivial", 0)
        for d in f.get("digests") or []:
            digests.add((f.get("sub"), d))
        r = f.get("rule")
        if r and f"{f.get('sub')}: {r}" not in rules:
            rules.append(f"{f.get('sub')}: {r}")
        for a in f.get("assumptions") or []:
            if a not in assumptions:
                assumptions.append(a)
        if len(samples) < 12:
            for s in (f.get("samples") or [])[:2]:
                samples.append({"sub": f.get("sub"), "case": s})
        for k, v in (f.get("labels") or {}).items():
            labels[f"{f.get('sub')}/{k}"] = labels.get(f"{f.get('sub')}/{k}", 0) + v
        inconclusive += f.get("inconclusive", 0)
        s = subs.setdefault(f.get("sub"), {"evaluations": 0, "nontrivial": 0, "wall_s": 0.0})
        s["evaluations"] += f.get("evaluations", 0)
        s["nontrivial"] += f.get("nontrivial", 0)
        s["wall_s"] = round(s["wall_s"] + j.wall, 2)
        for k, v in (f.get("extra") or {}).items():
            extra[f"{f.get('sub')}/{k}"] = v
    cov = {
        "evaluations": evaluations,
        "distinct_nontrivial": len(digests),
        "nontrivial_total": nontrivial_total,
        "rule": " || ".join(rules),
        "samples": samples,
        "labels": dict(sorted(labels.items())),
        "per_sub": subs,
        "inconclusive_cases": inconclusive,
    }
    if extra:
        cov["extra"] = extra
        if any(k.endswith("/exhaustive") and v for k, v in extra.items()):
            cov["exhaustive_subspaces"] = [k for k, v in extra.items() if k.endswith("/exhaustive") and v]
    if known_lines:
        cov["known_findings_hit"] = known_lines
    if notes:
        cov["notes"] = notes
    ev = {
        "property_id": pid, "tier": tier, "seed": verif_seed, "level": level,
        "coverage": cov, "assumptions": assumptions, "wall_s": round(wall, 2), "violations": nviol,
    }
    os.makedirs(evidence_dir(), exist_ok=True)
    with open(os.path.join(evidence_dir(), f"{pid}.json"), "w") as f:
        json.dump(ev, f, indent=1, sort_keys=True)


def open_findings(pid):
    try:
        with open(os.path.join(ROOT, "known_findings.json")) as f:
            return [x for x in json.load(f) if x.get("property") == pid and x.get("status") == "open"]
    except Exception:
        return []


def main():
    if len(sys.argv) < 3:
        raise SystemExit(__doc__)
    pid = sys.argv[1]
    if pid not in PROPS:
        raise SystemExit(f"unknown property {pid}")
    cfg = PROPS[pid]
    verif_seed = int(os.environ.get("VERIF_SEED", "1") or "1")
    t0 = time.time()

    if sys.argv[2] == "--replay":
        binary = build(pid)
        if not binary:
            sys.exit(2)
        path = os.path.abspath(sys.argv[3])
        rc, out = run_replay(binary, path)
        log(out[-6000:])
        if rc == 0:
            log("replay: property held")
            sys.exit(0)
        if "VIOLATION-CANDIDATE" in out or dht_frames(out):
            log(f"VIOLATION property={pid} replay={path}")
            sys.exit(1)
        sys.exit(2)

    tier = sys.argv[2]
    if tier not in ("quick", "thorough"):
        raise SystemExit(__doc__)
    binary = build(pid)
    if not binary:
        sys.exit(2)
    need_race = tier == "thorough" and any(s.get("race_shards") for s in cfg["jobs"])
    race_binary = build(pid, race=True) if need_race else None

    violations = []  # (key, msg, path)
    broken = []
    notes = []

    # 1. committed regression inputs
    rdir = os.path.join(ROOT, "replays", pid)
    for path in sorted(glob.glob(os.path.join(rdir, "*.json"))):
        rc, out = run_replay(binary, path)
        if rc == 0:
            continue
        if "VIOLATION-CANDIDATE" in out or dht_frames(out):
            m = re.search(r"VIOLATION-CANDIDATE (\S+): (.*)", out)
            key = m.group(1) if m else pid + ":process-death"
            msg = m.group(2) if m else "process died replaying a committed regression input"
            violations.append((key, msg, path))
        else:
            broken.append(f"replay of {path} failed without verdict:\n{out[-2000:]}")
    n_replays = len(glob.glob(os.path.join(rdir, "*.json")))

    # 2. exploration
    jobs = []
    for spec in cfg["jobs"]:
        tiers = spec.get("tiers", ["quick", "thorough"])
        if tier not in tiers:
            continue
        shards = spec.get("shards", 1) if tier == "thorough" else 1
        for sh in range(shards):
            jobs.append(Job(pid, spec, tier, verif_seed, sh))
        if tier == "thorough":
            for sh in range(spec.get("race_shards", 0)):
                jobs.append(Job(pid, spec, tier, verif_seed, 100 + sh, race=True))
    workers = cfg.get("workers_" + tier, 16 if tier == "thorough" else 8)
    # native fuzzing uses every core itself: it runs after the rapid / enumeration jobs, not beside them
    first = [j for j in jobs if j.kind != "fuzz"]
    with ThreadPoolExecutor(max_workers=workers) as ex:
        list(ex.map(lambda j: j.run(race_binary if j.race else binary), first))
    for j in jobs:
        if j.kind == "fuzz":
            j.run(binary)
    for j in jobs:
        v, b = triage(pid, j, race_binary if j.race else binary)
        violations.extend(v)
        if b:
            broken.append(b)
        if j.note:
            notes.append(f"{j.name}: {j.note}")
        if j.race and "WARNING: DATA RACE" in j.output:
            notes.append(f"{j.name}: the race detector reported a data race (logged, not a violation of this property)")

    # 3. known findings (never written at run time)
    known_lines = []
    hit = {}
    for j in jobs:
        for k, n in ((j.frag or {}).get("known") or {}).items():
            hit[k] = hit.get(k, 0) + n
    for f in open_findings(pid):
        line = f"KNOWN-FINDING: property={pid} {f['key']}: {f['what']} (hit {hit.get(f['key'], 0)} times in this run)"
        log(line)
        known_lines.append(line)

    wall = time.time() - t0
    # de-duplicate violations by key
    seen = {}
    for key, msg, path in violations:
        seen.setdefault(key, (msg, path))
    merge_evidence(pid, tier, verif_seed, jobs, len(seen), wall, cfg.get("level", "exploration"), known_lines,
                   notes + [f"{n_replays} committed regression inputs replayed first"])
    for j in jobs:
        ev = (j.frag or {}).get("evaluations", 0)
        nt = (j.frag or {}).get("nontrivial", 0)
        log(f"  job {j.name:14s} rc={j.rc} cases={ev} nontrivial={nt} wall={j.wall:.1f}s")
    for key, (msg, path) in seen.items():
        log(f"violation {key}: {msg[:1500]}")
        log(f"VIOLATION property={pid} replay={path}")
    if seen:
        sys.exit(1)
    if broken:
        for b in broken:
            log("INCONCLUSIVE: " + b)
        sys.exit(2)
    log(f"{pid} {tier}: held on everything explored ({wall:.1f}s)")
    sys.exit(0)


if __name__ == "__main__":
    main()
